"""Reference codec for structured TLV8 messages (property C16).  Imports nothing from aiohomekit.

A message type is *defined* by its declaration: a dataclass whose init fields carry `metadata["tlv_type"]` and a type
annotation.  This module reads that declaration by reflection (dataclasses.fields + typing.get_type_hints) and
implements the wire rules independently, on top of vt/ref/tlv8.py:

    u8/u16/u32/u64/u128   little-endian, fixed width 1/2/4/8/16          (recognised by class name in the MRO)
    bu16                  big-endian, 2 bytes
    str                   UTF-8
    bytes                 as is
    IntEnum               one byte
    nested message        its own encoding as the value
    Sequence[message]     the items' encodings joined by the zero-length separator item `00 00`
    Sequence[u16]         ("packed" list, received only) the ids as consecutive 2-byte little-endian integers
    anything else         unsupported (outside the property's quantifier; such fields stay unset)

A message is its fields in declaration order, each set field as one TLV item, a value over 255 bytes as maximal
255-byte fragments of the same type; unset (None) fields are omitted.

Values are handled as plain trees: {field name: int | str | bytes | tree | [tree, ...] | [int, ...]}.
"""
from __future__ import annotations

import dataclasses
import enum
import typing
from collections import abc

from vt.ref import tlv8

INT_KINDS = {"u8": (1, "little"), "u16": (2, "little"), "u32": (4, "little"), "u64": (8, "little"), "u128": (16, "little"), "bu16": (2, "big")}
SEPARATOR = b"\x00\x00"


class Field(typing.NamedTuple):
    name: str
    tlv_type: int
    kind: str  # int | str | bytes | enum | struct | list | packed | unsupported
    arg: object  # (width, order) | enum class | message class | item message class | (width, order) | description


def is_message_class(tp) -> bool:
    return isinstance(tp, type) and dataclasses.is_dataclass(tp) and any(b.__name__ == "TLVStruct" for b in tp.__mro__)


def _int_kind(tp):
    if not isinstance(tp, type):
        return None
    for b in tp.__mro__:
        if b.__name__ in INT_KINDS and b.__module__.endswith("tlv8") and issubclass(tp, int):
            return INT_KINDS[b.__name__]
    return None


def classify(tp):
    ik = _int_kind(tp)
    if ik:
        return "int", ik
    if isinstance(tp, type) and issubclass(tp, enum.IntEnum):
        return "enum", tp
    if tp is str:
        return "str", None
    if tp is bytes:
        return "bytes", None
    if is_message_class(tp):
        return "struct", tp
    origin = typing.get_origin(tp)
    if origin in (abc.Sequence, list, typing.Sequence, typing.List):  # noqa: UP006
        (inner,) = typing.get_args(tp) or (None,)
        if is_message_class(inner):
            return "list", inner
        ik = _int_kind(inner)
        if ik:
            return "packed", ik
    return "unsupported", repr(tp)


_SCHEMAS: dict = {}


def schema(cls) -> list[Field]:
    if cls not in _SCHEMAS:
        try:
            hints = typing.get_type_hints(cls)
        except Exception:  # noqa: BLE001
            hints = {}
        out = []
        for f in dataclasses.fields(cls):
            if not f.init or "tlv_type" not in f.metadata:
                continue
            tp = hints.get(f.name, f.type)
            kind, arg = classify(tp)
            out.append(Field(f.name, int(f.metadata["tlv_type"]), kind, arg))
        _SCHEMAS[cls] = out
    return _SCHEMAS[cls]


def shared_types(cls) -> dict:
    """tlv type -> [field names] for types declared by more than one field of the message."""
    seen: dict = {}
    for f in schema(cls):
        seen.setdefault(f.tlv_type, []).append(f.name)
    return {t: names for t, names in seen.items() if len(names) > 1}


# ---------------------------------------------------------------- encode
def encode_value(f: Field, value) -> bytes:
    if f.kind == "int":
        width, order = f.arg
        return int(value).to_bytes(width, order)
    if f.kind == "enum":
        return int(value).to_bytes(1, "little")
    if f.kind == "str":
        return value.encode("utf-8")
    if f.kind == "bytes":
        return bytes(value)
    if f.kind == "struct":
        return encode(f.arg, value)
    if f.kind == "list":
        return SEPARATOR.join(encode(f.arg, item) for item in value)
    if f.kind == "packed":
        width, order = f.arg
        return b"".join(int(v).to_bytes(width, order) for v in value)
    raise ValueError(f"field {f.name}: unsupported type {f.arg}")


def encode(cls, tree: dict, *, int_width=None) -> bytes:
    """Canonical encoding of a message given as a plain tree.  `int_width(field, value)` may shorten integers the
    way accessories do for received structures (HAP allows short type encodings)."""
    items = []
    known = {f.name for f in schema(cls)}
    extra = set(tree) - known
    if extra:
        raise ValueError(f"{cls.__name__}: unknown fields {sorted(extra)}")
    for f in schema(cls):
        if tree.get(f.name) is None:
            continue
        if f.kind == "int" and int_width is not None:
            w = int_width(f, tree[f.name])
            payload = int(tree[f.name]).to_bytes(w or f.arg[0], f.arg[1])
        elif f.kind in ("struct",) and int_width is not None:
            payload = encode(f.arg, tree[f.name], int_width=int_width)
        elif f.kind == "list" and int_width is not None:
            payload = SEPARATOR.join(encode(f.arg, item, int_width=int_width) for item in tree[f.name])
        else:
            payload = encode_value(f, tree[f.name])
        items.append((f.tlv_type, payload))
    return tlv8.encode(items)


# ---------------------------------------------------------------- decode (reference side)
def split_list(data: bytes) -> list[bytes]:
    """Split the value of a Sequence[message] field at its top-level zero-length type-0 separator items."""
    raw, ok = tlv8.parse_raw(data)
    if not ok:
        raise tlv8.Malformed()
    out, cur = [], bytearray()
    for t, v in raw:
        if t == 0 and len(v) == 0:
            out.append(bytes(cur))
            cur = bytearray()
        else:
            cur += bytes((t, len(v))) + v
    out.append(bytes(cur))
    return out


def decode(cls, data: bytes) -> dict:
    by_type = {}
    for f in schema(cls):
        by_type[f.tlv_type] = f  # a later declaration of the same type shadows an earlier one
    tree = {}
    for t, v in tlv8.decode(data):
        if t not in by_type:
            raise tlv8.Malformed(f"{cls.__name__}: unknown type {t}")
        f = by_type[t]
        tree[f.name] = decode_value(f, v)
    return tree


def decode_value(f: Field, v: bytes):
    if f.kind == "int":
        return int.from_bytes(v, f.arg[1])
    if f.kind == "enum":
        return int.from_bytes(v, "little")
    if f.kind == "str":
        return v.decode("utf-8")
    if f.kind == "bytes":
        return bytes(v)
    if f.kind == "struct":
        return decode(f.arg, v)
    if f.kind == "list":
        return [decode(f.arg, item) for item in split_list(v)] if v else []
    if f.kind == "packed":
        width, order = f.arg
        if len(v) % width:
            raise tlv8.Malformed("packed list length")
        return [int.from_bytes(v[i : i + width], order) for i in range(0, len(v), width)]
    raise ValueError(f"field {f.name}: unsupported type {f.arg}")


# ---------------------------------------------------------------- bridging plain trees and library objects
def build(cls, tree: dict, carriers=None):
    """Instantiate the (library's) dataclass from a plain tree.  carriers: other Python values a caller may legitimately put into a field -
    'loose': a bytearray where bytes are declared, the plain number where an IntEnum is declared."""
    kwargs = {}
    for f in schema(cls):
        v = tree.get(f.name)
        if v is None:
            continue
        if f.kind == "enum":
            v = f.arg(v) if carriers != "loose" else int(v)
        elif f.kind == "struct":
            v = build(f.arg, v, carriers)
        elif f.kind == "list":
            v = [build(f.arg, item, carriers) for item in v]
        elif carriers == "loose" and isinstance(v, bytes):
            v = bytearray(v)
        elif f.kind == "packed":
            v = list(v)
        kwargs[f.name] = v
    return cls(**kwargs)


class Shape(Exception):
    """A decoded object does not have the python shape its declaration promises."""


def plain(cls, obj) -> dict:
    """Plain tree of a library object (unset fields omitted); raises Shape when a value has the wrong python type."""
    if not isinstance(obj, cls):
        raise Shape(f"expected {cls.__name__}, got {type(obj).__name__}")
    tree = {}
    for f in schema(cls):
        v = getattr(obj, f.name)
        if v is None:
            continue
        where = f"{cls.__name__}.{f.name}"
        if f.kind == "int":
            if not isinstance(v, int) or isinstance(v, bool):
                raise Shape(f"{where}: {type(v).__name__}")
            tree[f.name] = int(v)
        elif f.kind == "enum":
            # weakest reading of "equal": the member itself or a plain int of the same value (IntEnum(1) == 1)
            if not isinstance(v, int) or isinstance(v, bool):
                raise Shape(f"{where}: {type(v).__name__} is not {f.arg.__name__}")
            tree[f.name] = int(v)
        elif f.kind == "str":
            if not isinstance(v, str):
                raise Shape(f"{where}: {type(v).__name__}")
            tree[f.name] = v
        elif f.kind == "bytes":
            if not isinstance(v, (bytes, bytearray)):
                raise Shape(f"{where}: {type(v).__name__}")
            tree[f.name] = bytes(v)
        elif f.kind == "struct":
            tree[f.name] = plain(f.arg, v)
        elif f.kind == "list":
            if not isinstance(v, (list, tuple)):
                raise Shape(f"{where}: {type(v).__name__}")
            tree[f.name] = [plain(f.arg, item) for item in v]
        elif f.kind == "packed":
            if not isinstance(v, (list, tuple)) or not all(isinstance(i, int) for i in v):
                raise Shape(f"{where}: {type(v).__name__}")
            tree[f.name] = [int(i) for i in v]
        else:
            raise Shape(f"{where}: value present for unsupported type {f.arg}")
    return tree


def diff(cls, want: dict, got: dict, path="") -> list[tuple[str, type, Field, object, object]]:
    """(path, owning message class, field, wanted, got) for every field whose values differ between two plain trees."""
    out = []
    for f in schema(cls):
        w, g = want.get(f.name), got.get(f.name)
        if w == g:
            continue
        p = f"{path}{cls.__name__}.{f.name}"
        if f.kind == "struct" and isinstance(w, dict) and isinstance(g, dict):
            out += diff(f.arg, w, g, p + "/")
        elif f.kind == "list" and isinstance(w, list) and isinstance(g, list) and len(w) == len(g):
            for i, (wi, gi) in enumerate(zip(w, g)):
                if wi != gi:
                    out += diff(f.arg, wi, gi, f"{p}[{i}]/")
        else:
            out.append((p, cls, f, w, g))
    return out

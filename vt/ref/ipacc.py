"""Reference HAP-over-IP accessory (HAP R2 ch. 6.5): HTTP/1.1 framing, pair-verify at /pair-verify, then the
encrypted session (frames = 2-byte LE length as AAD | ciphertext | 16-byte tag, <= 1024 plaintext bytes,
nonce = 4 zero bytes | LE64 per-direction counter).  Sans-I/O: feed(bytes) -> list of wire chunks to send back.
Imports nothing from aiohomekit."""
from __future__ import annotations

import json

from vt.ref import crypto as C
from vt.ref import hap, tlv8


class Framer:
    """Accessory side of the encrypted session."""

    def __init__(self, a2c_key, c2a_key):
        self.a2c_key, self.c2a_key = a2c_key, c2a_key
        self.a2c = 0
        self.c2a = 0
        self.buf = bytearray()
        self.broken = False
        self.frames_in = []  # (counter, plaintext_len)

    def seal(self, plaintext: bytes, sizes=None) -> bytes:
        """Frame `plaintext`; sizes: iterable of plaintext sizes (each 1..1024), last one repeated; default 1024."""
        out = bytearray()
        pos = 0
        sizes = list(sizes) if sizes else [1024]
        i = 0
        while pos < len(plaintext):
            n = sizes[min(i, len(sizes) - 1)]
            chunk = plaintext[pos : pos + n]
            ln = len(chunk).to_bytes(2, "little")
            out += ln + C.seal(self.a2c_key, C.nonce_ctr(self.a2c), chunk, ln)
            self.a2c += 1
            pos += len(chunk)
            i += 1
        return bytes(out)

    def seal_frames(self, plaintext: bytes, sizes=None):
        """Like seal() but returns the list of individual frames."""
        frames = []
        pos = 0
        sizes = list(sizes) if sizes else [1024]
        i = 0
        while pos < len(plaintext):
            n = sizes[min(i, len(sizes) - 1)]
            chunk = plaintext[pos : pos + n]
            ln = len(chunk).to_bytes(2, "little")
            frames.append(ln + C.seal(self.a2c_key, C.nonce_ctr(self.a2c), chunk, ln))
            self.a2c += 1
            pos += len(chunk)
            i += 1
        return frames

    def open(self, data: bytes) -> bytes:
        """Feed ciphertext, return newly available plaintext; sets broken on any authentication failure or oversize frame."""
        self.buf += data
        out = bytearray()
        while not self.broken and len(self.buf) >= 2:
            n = int.from_bytes(self.buf[:2], "little")
            if n > 1024:
                self.broken = True
                self.why = f"frame of {n} plaintext bytes"
                break
            if len(self.buf) < 2 + n + 16:
                break
            pt = C.open_(self.c2a_key, C.nonce_ctr(self.c2a), bytes(self.buf[2 : 2 + n + 16]), bytes(self.buf[:2]))
            if pt is None:
                self.broken = True
                self.why = f"frame {self.c2a} does not authenticate"
                break
            self.frames_in.append((self.c2a, n))
            self.c2a += 1
            del self.buf[: 2 + n + 16]
            out += pt
        return bytes(out)


def parse_http_requests(buf: bytearray):
    """Pop complete HTTP/1.1 requests off buf -> list of (method, target, headers[list of (k,v)], body, raw)."""
    out = []
    while True:
        idx = buf.find(b"\r\n\r\n")
        if idx < 0:
            return out
        head = bytes(buf[:idx]).decode("latin-1")
        lines = head.split("\r\n")
        try:
            method, target, version = lines[0].split(" ")
        except ValueError:
            raise ValueError(f"bad request line {lines[0]!r}")
        headers = []
        clen = 0
        for ln in lines[1:]:
            k, _, v = ln.partition(":")
            headers.append((k, v.strip()))
            if k.lower() == "content-length":
                clen = int(v.strip())
        if len(buf) < idx + 4 + clen:
            return out
        body = bytes(buf[idx + 4 : idx + 4 + clen])
        raw = bytes(buf[: idx + 4 + clen])
        del buf[: idx + 4 + clen]
        out.append((method, target, headers, body, raw))


def http_response(code=200, body=b"", ctype="application/hap+json", reason=None, proto="HTTP/1.1", extra=()):
    reason = reason or {200: "OK", 204: "No Content", 207: "Multi-Status", 400: "Bad Request", 470: "Connection Authorization Required", 404: "Not Found", 422: "Unprocessable Entity", 500: "Internal Server Error"}.get(code, "X")
    head = f"{proto} {code} {reason}\r\n"
    if body or code not in (204,):
        if ctype:
            head += f"Content-Type: {ctype}\r\n"
        head += f"Content-Length: {len(body)}\r\n"
    for k, v in extra:
        head += f"{k}: {v}\r\n"
    return head.encode() + b"\r\n" + body


HTTP_STYLES = ("lower", "upper", "mixed", "chunked", "chunked-lower", "chunked-2", "lws", "extra-headers", "no-ctype")


def restyle(wire: bytes, style: str) -> bytes:
    """The same HTTP message as another (equally legal, RFC 7230) byte sequence: header names are case-insensitive, optional
    whitespace may surround a value, further headers may be present, a body may be chunked instead of length-prefixed."""
    head, sep, body = wire.partition(b"\r\n\r\n")
    if not sep:
        return wire
    # several messages in one buffer (two events written at once): each is restyled on its own
    for ln in head.split(b"\r\n")[1:]:
        if ln.startswith(b"Content-Length: "):
            n = int(ln.split(b": ", 1)[1])
            if len(body) > n:
                return restyle(head + sep + body[:n], style) + restyle(body[n:], style)
            break
    else:
        if body:
            return restyle(head + sep, style) + restyle(body, style)
    lines = head.split(b"\r\n")
    start, hdrs = lines[0], [ln.split(b": ", 1) for ln in lines[1:]]
    has_len = any(k == b"Content-Length" for k, _ in hdrs)
    if style in ("lower", "upper"):
        hdrs = [(k.lower() if style == "lower" else k.upper(), v) for k, v in hdrs]
    elif style == "mixed":
        hdrs = [(k[:1] + k[1:].lower(), v) for k, v in hdrs]  # Content-length, Content-type
    elif style == "lws":
        hdrs = [(k, b" " + v + b" \t") for k, v in hdrs]
    elif style == "extra-headers":
        hdrs = [(b"Date", b"Thu, 01 Jan 1970 00:00:00 GMT"), (b"X-Content-Length-Hint", b"0")] + hdrs + [(b"Connection", b"keep-alive")]
    elif style == "no-ctype":
        hdrs = [(k, v) for k, v in hdrs if k != b"Content-Type"]
    elif style.startswith("chunked") and has_len:
        te = b"transfer-encoding" if style == "chunked-lower" else b"Transfer-Encoding"
        hdrs = [(k, v) for k, v in hdrs if k != b"Content-Length"] + [(te, b"chunked")]
        parts = [body] if style != "chunked-2" or len(body) < 2 else [body[: len(body) // 2], body[len(body) // 2 :]]
        body = b"".join(b"%x\r\n%s\r\n" % (len(c), c) for c in parts if c) + b"0\r\n\r\n"
    return start + b"\r\n" + b"".join(k + b": " + v + b"\r\n" for k, v in hdrs) + b"\r\n" + body


def event_message(body: bytes):
    return http_response(200, body, proto="EVENT/1.0")


class Accessory:
    """Long-lived accessory: identity, paired controllers, application handler."""

    def __init__(self, seed, acc_id=b"AA:BB:CC:DD:EE:FF"):
        self.seed = seed
        self.ident = hap.Identity(seed, "acc", acc_id)
        self.ios = hap.Identity(seed, "ios", b"decc6fa3-de3e-41c9-adba-ef7409821bfc")
        self.controllers = {self.ios.id: self.ios.pk}
        self.sessions = []
        self.handler = lambda sess, method, target, headers, body: (404, b"", "application/hap+json")
        self.verify_fault = None  # see Session._pair_verify
        self.frame_sizes = None

    def pairing_data(self, hosts=("127.0.0.1",), port=51826):
        d = {
            "AccessoryPairingID": self.ident.id.decode(),
            "AccessoryLTPK": self.ident.pk.hex(),
            "iOSPairingId": self.ios.id.decode(),
            "iOSDeviceLTSK": C.det_bytes(self.seed, "ltsk|ios").hex(),
            "iOSDeviceLTPK": self.ios.pk.hex(),
            "AccessoryIP": hosts[0],
            "AccessoryIPs": list(hosts),
            "AccessoryPort": port,
            "Connection": "IP",
        }
        return d

    def new_session(self):
        s = Session(self, len(self.sessions))
        self.sessions.append(s)
        return s


class Session:
    def __init__(self, acc: Accessory, sid):
        self.acc, self.sid = acc, sid
        self.plain = bytearray()
        self.framer: Framer | None = None
        self.requests = []  # (secure, method, target, headers, body, raw)
        self.pv = None
        self.verified = False
        self.m3_ok = None
        self.keys = None
        self.errors = []
        self.fault = acc.verify_fault
        self.nreq = 0

    def respond(self, wire_plain: bytes, sizes=None) -> bytes:
        style = getattr(self.acc, "http_style", None)
        if style:
            wire_plain = restyle(wire_plain, style)
        if self.framer:
            return self.framer.seal(wire_plain, sizes or self.acc.frame_sizes)
        return wire_plain

    def event(self, body: bytes, sizes=None) -> bytes:
        return self.respond(event_message(body), sizes)

    def feed(self, data: bytes):
        out = []
        if self.framer:
            self.plain += self.framer.open(data)
            if self.framer.broken:
                self.errors.append(self.framer.why)
                return out
        else:
            self.plain += data
        try:
            reqs = parse_http_requests(self.plain)
        except ValueError as e:
            self.errors.append(str(e))
            return out
        for method, target, headers, body, raw in reqs:
            self.requests.append((self.framer is not None, method, target, headers, body, raw))
            if target == "/pair-setup" and method == "POST":
                out.append(self.respond(self._pair_setup(body)))
                continue
            if target == "/pair-verify" and method == "POST":
                resp, switch = self._pair_verify(body)
                out.append(self.respond(resp))
                if switch:
                    self.framer = Framer(self.keys["a2c"], self.keys["c2a"])
                    self.verified = True
                continue
            res = self.acc.handler(self, method, target, headers, body)
            if res is None:
                continue  # handler will answer later / never
            if isinstance(res, (bytes, bytearray)):
                out.append(self.respond(bytes(res)))
            else:
                code, rbody, ctype = res
                out.append(self.respond(http_response(code, rbody, ctype)))
        return out

    def _pair_setup(self, body):
        """Pair-setup M1..M6 on this connection (setup code acc.setup_code, fresh SRP salt/secret per attempt; the exchange lives and dies with
        the connection, numbering / controllers / log are the accessory's)."""
        svc = getattr(self, "setup_svc", None)
        if svc is None:
            acc = self.acc
            svc = self.setup_svc = hap.SetupService(acc.ident, getattr(acc, "setup_code", "111-22-333"), acc.seed)
            svc.setups = acc.__dict__.setdefault("setups", [])
            svc.log = acc.__dict__.setdefault("setup_log", [])
            svc.controllers = acc.controllers
        items = svc.handle(body)
        self.setup = svc.cur
        return http_response(200, tlv8.encode(items), "application/pairing+tlv8")

    def _pair_verify(self, body):
        tlv = lambda items: http_response(200, tlv8.encode(items), "application/pairing+tlv8")  # noqa: E731
        try:
            req = dict(tlv8.decode(body))
        except tlv8.Malformed:
            return tlv([(hap.T_STATE, b"\x02"), (hap.T_ERROR, b"\x01")]), False
        st = req.get(hap.T_STATE)
        fault = self.fault
        if st == b"\x01":
            ios_pub = bytes(req.get(hap.T_PK, b""))
            # a conformant accessory draws a fresh ephemeral key per session; one that (unwisely) re-uses its key is still an accessory the
            # controller has to be safe with: its own fresh key keeps the sessions apart
            eph_seed = C.det_bytes(self.acc.seed, "acc-eph|fixed" if getattr(self.acc, "fixed_eph", False) else f"acc-eph|{self.sid}")
            ident = self.acc.ident
            kw = {}
            if fault == "wrong-id":
                ident = hap.Identity(self.acc.seed, "someone-else", b"99:99:99:99:99:99")
            elif fault == "bad-sig":
                kw["sig_edit"] = lambda s: bytes(64)
            elif fault == "auth-error":
                return tlv([(hap.T_STATE, b"\x02"), (hap.T_ERROR, b"\x02")]), False
            elif fault == "busy-error":
                return tlv([(hap.T_STATE, b"\x02"), (hap.T_ERROR, b"\x07")]), False
            elif fault == "auth-error-470":
                return http_response(470, tlv8.encode([(hap.T_STATE, b"\x02"), (hap.T_ERROR, b"\x02")]), "application/pairing+tlv8"), False
            elif fault == "http-400":
                return http_response(400, b"", None), False
            elif fault == "http-470":
                return http_response(470, b"", None), False
            elif fault == "garbage":
                return http_response(200, b"\x06\x01", "application/pairing+tlv8"), False
            items, shared, acc_pub = hap.pv_m2(ident, eph_seed, ios_pub, **kw)
            if fault == "bad-tag":
                # well-formed M2 whose encrypted part does not open (garbled on the way, an accessory still booting): no error item anywhere
                items = [(t, (bytes(v[:-1]) + bytes([v[-1] ^ 0x01])) if t == hap.T_ENC else v) for t, v in items]
            elif fault == "short-key":
                items = [(t, bytes(v[:31]) if t == hap.T_PK else v) for t, v in items]  # a public key that is not 32 bytes long
            if callable(fault):
                items = fault(items)
            if isinstance(fault, dict) and fault.get("m2") is not None:
                self.pv = (shared, acc_pub, ios_pub)
                return http_response(fault.get("http", 200), tlv8.encode(fault["m2"](items)), "application/pairing+tlv8"), False
            self.pv = (shared, acc_pub, ios_pub)
            return tlv(items), False
        if st == b"\x03" and self.pv:
            shared, acc_pub, ios_pub = self.pv
            self.m3_ok = hap.pv_check_m3(req, shared, acc_pub, ios_pub, self.acc.controllers)
            if isinstance(fault, dict) and fault.get("m4") is not None:
                return http_response(fault.get("http", 200), tlv8.encode(fault["m4"]([(hap.T_STATE, b"\x04")])), "application/pairing+tlv8"), False
            if fault == "m4-auth-error-470":
                return http_response(470, tlv8.encode([(hap.T_STATE, b"\x04"), (hap.T_ERROR, b"\x02")]), "application/pairing+tlv8"), False
            if fault == "m4-auth-error-470-no-state":
                return http_response(470, tlv8.encode([(hap.T_ERROR, b"\x02")]), "application/pairing+tlv8"), False
            if fault == "m4-auth-error" or not self.m3_ok:
                return tlv([(hap.T_STATE, b"\x04"), (hap.T_ERROR, b"\x02")]), False
            if fault == "m4-http-400":
                return http_response(400, b"", None), False
            self.keys = hap.session_keys(shared)
            return tlv([(hap.T_STATE, b"\x04")]), True
        return tlv([(hap.T_STATE, b"\x02"), (hap.T_ERROR, b"\x01")]), False


def jbody(obj) -> bytes:
    return json.dumps(obj, separators=(",", ":")).encode()

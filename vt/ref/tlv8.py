"""Independent TLV8 codec written from the HAP specification (R2 ch. 14.1).  Imports nothing from aiohomekit.

item  := type(1) length(1) value(length)
values longer than 255 bytes are sent as consecutive items of the same type, every one but the last
carrying 255 bytes ("maximal fragments"); there is no trailing empty fragment; a zero-length value is `tt 00`;
consecutive items of the same type are concatenated by the receiver; two values of the same type that
must stay distinct are kept apart by an item of another type (pairing: ff 00, struct lists: 00 00).
"""
from __future__ import annotations


class Malformed(Exception):
    pass


def encode(items):
    out = bytearray()
    for t, v in items:
        v = bytes(v)
        if not 0 <= t <= 255:
            raise ValueError("type")
        if len(v) == 0:
            out += bytes((t, 0))
            continue
        pos = 0
        while pos < len(v):
            chunk = v[pos : pos + 255]
            out += bytes((t, len(chunk))) + chunk
            pos += 255
    return bytes(out)


def parse_raw(data):
    """-> (list of raw (type, value) items of the well-formed prefix, well_formed: bool)."""
    data = bytes(data)
    pos = 0
    raw = []
    while pos < len(data):
        if pos + 2 > len(data):
            return raw, False
        t, ln = data[pos], data[pos + 1]
        if pos + 2 + ln > len(data):
            return raw, False
        raw.append((t, data[pos + 2 : pos + 2 + ln]))
        pos += 2 + ln
    return raw, True


def merge(raw):
    out = []
    for t, v in raw:
        if out and out[-1][0] == t:
            out[-1] = (t, out[-1][1] + bytes(v))
        else:
            out.append((t, bytes(v)))
    return out


def decode(data):
    raw, ok = parse_raw(data)
    if not ok:
        raise Malformed()
    return merge(raw)

"""Reference HAP accessory for pair-setup (M1..M6), pair-verify (M1..M4) and pair-resume, written from the HAP
specification (R2 ch. 5.6, 5.7, 7.3.x).  Sans-I/O and sans-state-machine: plain functions with every ingredient
explicit, so that a harness can build the honest reply *and* any adversarial variant of it.
Imports nothing from aiohomekit."""
from __future__ import annotations

from vt.ref import crypto as C
from vt.ref import srp
from vt.ref import tlv8

# TLV types (HAP table 5-6)
T_METHOD, T_ID, T_SALT, T_PK, T_PROOF, T_ENC, T_STATE, T_ERROR, T_RETRY, T_CERT, T_SIG, T_PERM, T_FRAGD, T_FRAGL, T_SESSID = range(15)
T_SEP = 255
M_RESUME = 6

G = srp.HOMEKIT
USER = "Pair-Setup"


class Identity:
    """Long-term identity of an accessory (or controller)."""

    def __init__(self, seed, label, pairing_id: bytes):
        self.sk = C.ed_priv(C.det_bytes(seed, f"ltsk|{label}"))
        self.pk = C.ed_pub_bytes(self.sk)
        self.id = pairing_id

    def sign(self, msg: bytes) -> bytes:
        return self.sk.sign(msg)


# --------------------------------------------------------------------------- pair setup
class SetupAccessory:
    def __init__(self, ident: Identity, code: str, salt: bytes, b: int):
        self.ident, self.code, self.salt, self.b = ident, code, salt, b
        self.x = srp.x_of(G, salt, USER, code)
        self.v = pow(G.g, self.x, G.N)
        self.B = (G.k() * self.v + pow(G.g, b, G.N)) % G.N
        self.B_pad = G.pad(self.B)
        self.K = None
        self.controller = None  # (id, ltpk) once M5 verified
        self.m3_ok = None
        self.m5_ok = None

    def m2(self):
        return [(T_STATE, b"\x02"), (T_PK, self.B_pad), (T_SALT, self.salt)]

    def handle_m3(self, req: dict):
        """-> honest M4 items (proof) or error reply; records verdict in m3_ok."""
        A_b, M1 = bytes(req.get(T_PK, b"")), bytes(req.get(T_PROOF, b""))
        A = int.from_bytes(A_b, "big")
        self.m3_ok = False
        if req.get(T_STATE) != b"\x03" or A % G.N == 0 or len(A_b) != 384:
            return [(T_STATE, b"\x04"), (T_ERROR, b"\x02")]
        A_pad = G.pad(A)
        u = int.from_bytes(G.H(A_pad, self.B_pad), "big")
        S = pow(A * pow(self.v, u, G.N) % G.N, self.b, G.N)
        K = G.H(G.pad(S))
        hn, hg = G.H(G.i2b(G.N)), G.H(G.i2b(G.g))
        hgroup = bytes(p ^ q for p, q in zip(hn, hg))
        want = G.H(hgroup, G.H(USER.encode()), self.salt, A_pad, self.B_pad, K)
        if M1 != want:
            return [(T_STATE, b"\x04"), (T_ERROR, b"\x02")]
        self.m3_ok = True
        self.K = K
        self.M2proof = G.H(A_pad, M1, K)
        return [(T_STATE, b"\x04"), (T_PROOF, self.M2proof)]

    def keys(self):
        K = self.K
        return dict(
            enc=C.hkdf(K, b"Pair-Setup-Encrypt-Salt", b"Pair-Setup-Encrypt-Info"),
            ctrl_x=C.hkdf(K, b"Pair-Setup-Controller-Sign-Salt", b"Pair-Setup-Controller-Sign-Info"),
            acc_x=C.hkdf(K, b"Pair-Setup-Accessory-Sign-Salt", b"Pair-Setup-Accessory-Sign-Info"),
        )

    def handle_m5(self, req: dict):
        self.m5_ok = False
        err = [(T_STATE, b"\x06"), (T_ERROR, b"\x02")]
        if self.K is None or req.get(T_STATE) != b"\x05" or T_ENC not in req:
            return err
        k = self.keys()
        pt = C.open_(k["enc"], C.nonce_str(b"PS-Msg05"), bytes(req[T_ENC]))
        if pt is None:
            return err
        try:
            sub = dict(tlv8.decode(pt))
        except tlv8.Malformed:
            return err
        if not all(t in sub for t in (T_ID, T_PK, T_SIG)):
            return err
        if not C.ed_verify(sub[T_PK], sub[T_SIG], k["ctrl_x"] + sub[T_ID] + sub[T_PK]):
            return err
        self.m5_ok = True
        self.controller = (sub[T_ID], sub[T_PK])
        return self.m6()

    def m6(self, *, ident=None, signer=None, signed_id=None, signed_pk=None, enc_key=None, nonce=b"PS-Msg06", omit=(), sub_override=None):
        """Honest M6 by default; every ingredient can be swapped for fault injection."""
        k = self.keys()
        ident = ident or self.ident
        signer = signer or ident
        info = k["acc_x"] + (signed_id if signed_id is not None else ident.id) + (signed_pk if signed_pk is not None else ident.pk)
        sig = signer.sign(info)
        sub = [(T_ID, ident.id), (T_PK, ident.pk), (T_SIG, sig)]
        sub = [i for i in sub if i[0] not in omit]
        if sub_override is not None:
            sub = sub_override(sub)
        ct = C.seal(enc_key or k["enc"], C.nonce_str(nonce), tlv8.encode(sub))
        return [(T_STATE, b"\x06"), (T_ENC, ct)]


class SetupService:
    """The pair-setup endpoint of a conformant accessory as one little state machine (HAP R2 5.6): M1 starts a fresh SRP
    exchange (new salt and secret every time), a failed M3 or any out-of-order message ends it, a lost link ends it.
    Keeps a log of what it was asked and what it decided, for oracles."""

    REFUSE: dict = {}  # request state -> error codes to answer the next requests of that state with (set and cleared by a harness)

    def __init__(self, ident: Identity, code: str, seed):
        self.ident, self.code, self.seed = ident, code, seed
        self.setups = []  # every exchange ever started
        self.cur = None  # the live exchange, if any
        self.stage = 0  # last request state accepted in the live exchange (1 = M2 sent, 3 = M4 proof sent)
        self.controllers = {}
        self.log = []  # (request state, verdict)

    def reset(self):
        self.cur, self.stage = None, 0

    def handle(self, body: bytes):
        err = lambda st, e=b"\x02": [(T_STATE, bytes([st])), (T_ERROR, e)]  # noqa: E731
        try:
            req = dict(tlv8.decode(body))
        except tlv8.Malformed:
            self.log.append((None, "malformed"))
            self.reset()
            return err(2, b"\x01")
        st = req.get(T_STATE)
        q = self.REFUSE.get(st[0] if st else None)
        if q:
            # scripted by a harness: this accessory answers the next requests of that step with an error code (busy with another controller,
            # too many attempts, ...).  Whatever exchange was live is over.
            code = q.pop(0)
            self.log.append((st[0], "refused:" + code.hex()))
            self.reset()
            return err(st[0] + 1, code)
        if st == b"\x01":
            n = len(self.setups)
            self.cur = SetupAccessory(self.ident, self.code, C.det_bytes(self.seed, f"salt|{n}", 16), int.from_bytes(C.det_bytes(self.seed, f"srp-b|{n}", 32), "big"))
            self.setups.append(self.cur)
            self.stage = 1
            self.log.append((1, "started"))
            return self.cur.m2()
        if st == b"\x03":
            if self.cur is None or self.stage != 1:
                self.log.append((3, "no-live-exchange"))
                self.reset()
                return err(4, b"\x01")
            items = self.cur.handle_m3(req)
            self.log.append((3, "accepted" if self.cur.m3_ok else "rejected"))
            if self.cur.m3_ok:
                self.stage = 3
            else:
                self.reset()
            return items
        if st == b"\x05":
            if self.cur is None or self.stage != 3:
                self.log.append((5, "no-live-exchange"))
                self.reset()
                return err(6, b"\x01")
            cur = self.cur
            items = cur.handle_m5(req)
            self.log.append((5, "accepted" if cur.m5_ok else "rejected"))
            if cur.m5_ok:
                self.controllers[bytes(cur.controller[0])] = bytes(cur.controller[1])
            self.reset()
            return items
        self.log.append((st, "unknown-state"))
        self.reset()
        return err(2, b"\x01")


# --------------------------------------------------------------------------- pair verify
def pv_shared(acc_eph_seed32: bytes, ios_pub: bytes):
    eph = C.x_priv(acc_eph_seed32)
    return eph, C.x_pub_bytes(eph), C.x_exchange(eph, ios_pub)


def pv_enc_key(shared: bytes) -> bytes:
    return C.hkdf(shared, b"Pair-Verify-Encrypt-Salt", b"Pair-Verify-Encrypt-Info")


def pv_m2(ident: Identity, acc_eph_seed32: bytes, ios_pub: bytes, *, signer=None, claimed_id=None, transcript=None,
          enc_key=None, nonce=b"PV-Msg02", sub_edit=None, sig_edit=None, sent_pk=None):
    """Honest M2 by default.  transcript: permutation of 'aIc' (a=accessory eph pk, I=id, c=controller eph pk)."""
    eph, acc_pub, shared = pv_shared(acc_eph_seed32, ios_pub)
    cid = ident.id if claimed_id is None else claimed_id
    parts = {"a": acc_pub, "I": cid, "c": ios_pub}
    info = b"".join(parts[ch] for ch in (transcript or "aIc"))
    sig = (signer or ident).sign(info)
    if sig_edit:
        sig = sig_edit(sig)
    sub = [(T_ID, cid), (T_SIG, sig)]
    if sub_edit:
        sub = sub_edit(sub)
    ct = C.seal(enc_key or pv_enc_key(shared), C.nonce_str(nonce), tlv8.encode(sub))
    return [(T_STATE, b"\x02"), (T_PK, acc_pub if sent_pk is None else sent_pk), (T_ENC, ct)], shared, acc_pub


def pv_check_m3(req: dict, shared: bytes, acc_pub: bytes, ios_pub: bytes, controllers: dict) -> bool:
    """Accessory verdict on M3.  controllers: {ios_pairing_id(bytes): ltpk(bytes)}."""
    if req.get(T_STATE) != b"\x03" or T_ENC not in req:
        return False
    pt = C.open_(pv_enc_key(shared), C.nonce_str(b"PV-Msg03"), bytes(req[T_ENC]))
    if pt is None:
        return False
    try:
        sub = dict(tlv8.decode(pt))
    except tlv8.Malformed:
        return False
    if T_ID not in sub or T_SIG not in sub or sub[T_ID] not in controllers:
        return False
    return C.ed_verify(controllers[sub[T_ID]], sub[T_SIG], ios_pub + sub[T_ID] + acc_pub)


def session_keys(shared: bytes):
    return dict(
        c2a=C.hkdf(shared, b"Control-Salt", b"Control-Write-Encryption-Key"),
        a2c=C.hkdf(shared, b"Control-Salt", b"Control-Read-Encryption-Key"),
        event=C.hkdf(shared, b"Event-Salt", b"Event-Read-Encryption-Key"),
        session_id=C.hkdf(shared, b"Pair-Verify-ResumeSessionID-Salt", b"Pair-Verify-ResumeSessionID-Info", 8),
        bcast=None,
    )


# --------------------------------------------------------------------------- pair resume (HAP-BLE 7.3.7)
def resume_check_m1(req: dict, prev_shared: bytes, known_session_id: bytes) -> bool:
    if req.get(T_STATE) != b"\x01" or req.get(T_METHOD) != bytes([M_RESUME]):
        return False
    pk, sid, tag = bytes(req.get(T_PK, b"")), bytes(req.get(T_SESSID, b"")), bytes(req.get(T_ENC, b""))
    if sid != known_session_id or len(pk) != 32:
        return False
    key = C.hkdf(prev_shared, pk + sid, b"Pair-Resume-Request-Info")
    return C.open_(key, C.nonce_str(b"PR-Msg01"), tag) == b""


def resume_m2(ios_pub: bytes, prev_shared: bytes, new_session_id: bytes, *, secret_for_tag=None, sent_session_id=None, method=bytes([M_RESUME])):
    """-> (reply items, new shared secret)."""
    key = C.hkdf(secret_for_tag or prev_shared, ios_pub + new_session_id, b"Pair-Resume-Response-Info")
    tag = C.seal(key, C.nonce_str(b"PR-Msg02"), b"")
    new_shared = C.hkdf(prev_shared, ios_pub + new_session_id, b"Pair-Resume-Shared-Secret-Info")
    items = [(T_STATE, b"\x02"), (T_METHOD, method), (T_SESSID, new_session_id if sent_session_id is None else sent_session_id), (T_ENC, tag)]
    return items, new_shared

"""Reference model of "value preparation" for numeric HomeKit characteristics (property C14).

Exact rational arithmetic (fractions.Fraction) on the *decimal reading* of every quantity; imports nothing from
aiohomekit and does not use the decimal module.

    reading        int -> itself; float -> the number its repr() spells; str -> the decimal numeral it spells
    clamp          c = min(max(x, minValue), maxValue) for the bounds that are declared
    grid           origin o = minValue (0 when undeclared), points o + k*minStep, k integer; no/zero step = no grid
    nearest        the grid point closest to c; an exact tie goes to the upper point when the quotient (c-o)/step
                   is >= 0; for a negative quotient either neighbour is accepted (weakest reading)
    integer exact  integer format + integer-valued input + integer parameters: the result must be *equal* to a
                   nearest grid point (or to c when there is no grid)
    fractional     everything else: the conversion deliberately keeps six significant digits, so the result must
                   be within TOL of some grid point, within step/2 + TOL of c, on the upper side of an exact tie when
                   TOL is small against the step, and inside the range (exactly when every quantity involved fits
                   in six significant digits, else within TOL) whenever the bounds are on the grid.
                   TOL = 2.1e-5 * the largest magnitude the computation touches (|c|, |o|, |c-o|, + step): four
                   roundings of relative error <= 5e-6 each are the most a 6-digit evaluation of
                   o + round((c-o)/step)*step can lose, so a correct 6-digit implementation can never exceed it.
"""
from __future__ import annotations

import math
import re
from fractions import Fraction

INT_FORMATS = ("uint8", "uint16", "uint32", "uint64", "int")
NUMERIC_FORMATS = INT_FORMATS + ("float",)

_NUM = re.compile(r"^([+-]?)([0-9]*)(?:\.([0-9]*))?(?:[eE]([+-]?[0-9]+))?$")


class NotNumeric(ValueError):
    pass


def parse_decimal(text: str) -> Fraction:
    """The rational number a plain decimal numeral spells ('27.5', '-3', '+1e3', '.5', '5.', '9.2e+18')."""
    m = _NUM.match(text)
    if not m:
        raise NotNumeric(text)
    sign, ip, fp, ex = m.groups()
    ip = ip or ""
    fp = fp or ""
    if not ip and not fp:
        raise NotNumeric(text)
    mant = int((ip + fp) or "0")
    exp = int(ex or "0") - len(fp)
    val = Fraction(mant) * (Fraction(10) ** exp)
    return -val if sign == "-" else val


def reading(x) -> Fraction:
    """Decimal reading of a caller-supplied numeric input or of a declared bound/step."""
    if isinstance(x, bool):
        raise NotNumeric(repr(x))
    if isinstance(x, int):
        return Fraction(x)
    if isinstance(x, float):
        if x != x or x in (float("inf"), float("-inf")):
            raise NotNumeric(repr(x))
        return parse_decimal(repr(x))
    if isinstance(x, str):
        return parse_decimal(x)
    raise NotNumeric(repr(x))


def binary_reading(x: float) -> Fraction:
    """The exact binary value of a float (differs from the decimal reading beyond 2**53 and at decimal ties)."""
    return Fraction(x)


def frac_to_str(v: Fraction) -> str:
    """Exact plain decimal numeral of a rational with a finite decimal expansion."""
    n, d = v.numerator, v.denominator
    k = 0
    while d != 1:
        if d % 10 == 0:
            d //= 10
        elif d % 2 == 0:
            d //= 2
            n *= 5
        elif d % 5 == 0:
            d //= 5
            n *= 2
        else:
            raise NotNumeric(f"{v} has no finite decimal expansion")
        k += 1
    s = str(abs(n))
    if k:
        s = s.rjust(k + 1, "0")
        s = s[:-k] + "." + s[-k:]
    return ("-" if n < 0 else "") + s


def ilog10(m: Fraction) -> int:
    """floor(log10(m)) for m > 0, exactly."""
    if m <= 0:
        raise ValueError(m)
    if m >= 1:
        return len(str(m.numerator // m.denominator)) - 1
    e = 0
    while m < 1:
        m *= 10
        e -= 1
    return e


def unit6(m: Fraction) -> Fraction:
    """One unit in the sixth significant digit of a number of magnitude m (0 for m == 0)."""
    m = abs(m)
    if m == 0:
        return Fraction(0)
    return Fraction(10) ** (ilog10(m) - 5)


def fits6(v: Fraction) -> bool:
    """v is representable with at most six significant decimal digits."""
    if v == 0:
        return True
    u = unit6(v)
    return (v / u).denominator == 1


def clamp(x: Fraction, lo, hi) -> Fraction:
    c = x
    if lo is not None and c < lo:
        c = lo
    if hi is not None and c > hi:
        c = hi
    return c


def nearest(o: Fraction, s: Fraction, c: Fraction):
    """-> (quotient, [acceptable nearest grid points], is_exact_tie)"""
    q = (c - o) / s
    k = math.floor(q)
    lower = o + k * s
    if q == k:
        return q, [lower], False
    upper = lower + s
    dl, du = c - lower, upper - c
    if dl < du:
        return q, [lower], False
    if du < dl:
        return q, [upper], False
    if q >= 0:
        return q, [upper], True
    return q, [lower, upper], True


class Config:
    """Declared (format, minValue, maxValue, minStep), each bound/step None when undeclared."""

    def __init__(self, fmt, lo, hi, step):
        self.fmt = fmt
        self.lo = None if lo is None else reading(lo)
        self.hi = None if hi is None else reading(hi)
        st = None if step is None else reading(step)
        self.step = st if st else None  # a zero step declares no grid
        self.origin = self.lo if self.lo is not None else Fraction(0)
        self.integer_params = all(v is None or v.denominator == 1 for v in (self.lo, self.hi, self.step))

    def bounds_on_grid(self):
        """(lower bound on grid, upper bound on grid).  The lower bound is the grid origin when declared."""
        if self.step is None:
            return (self.lo is not None, self.hi is not None)
        lo_ok = self.lo is not None
        hi_ok = self.hi is not None and ((self.hi - self.origin) / self.step).denominator == 1
        return lo_ok, hi_ok


REL6 = Fraction(21, 10**6)


def tolerance(cfg: Config, c: Fraction) -> Fraction:
    """What a correct evaluation of o + round((c-o)/step)*step in six-significant-digit arithmetic can lose.

    One rounding to six significant digits has a relative error of at most 5e-6 (half a unit of the 6th digit of a
    mantissa 1.00000).  The evaluation rounds four times (c-o, the quotient, the product, the sum): the two before the
    integer rounding move the quotient by <= 1e-5 |c-o|/step, the two after it move the result by <= 5e-6 (|c-o| + |c|).
    Total <= 2e-5 * M with M the largest magnitude touched; 2.1e-5 absorbs the second-order terms."""
    mag = max(abs(c), abs(cfg.origin), abs(c - cfg.origin)) + (cfg.step or 0)
    return REL6 * mag


def judge(cfg: Config, x: Fraction, r, *, integer_valued_input=None):
    """Judge result r (python int or float as returned by the library) for input reading x.
    -> (list of (failure_class, detail), facts dict).  Empty list = the property holds for this evaluation."""
    out = []
    facts = {}
    is_int_fmt = cfg.fmt in INT_FORMATS
    # ---- type
    if is_int_fmt:
        if type(r) is not int:
            return [("wrong-result-type", {"got_type": type(r).__name__, "want": "int"})], facts
    else:
        if type(r) is not float:
            return [("wrong-result-type", {"got_type": type(r).__name__, "want": "float"})], facts
        if r != r or r in (float("inf"), float("-inf")):
            return [("non-finite-result", {"got": repr(r)})], facts
    rv = Fraction(r) if isinstance(r, int) else reading(r)
    c = clamp(x, cfg.lo, cfg.hi)
    facts["clamped"] = "low" if c > x else "high" if c < x else "no"
    s = cfg.step
    int_input = x.denominator == 1 if integer_valued_input is None else integer_valued_input
    exact = is_int_fmt and int_input and cfg.integer_params
    if is_int_fmt and not cfg.integer_params:
        # an integer format whose declared bounds / step are fractional: the grid holds points no integer can represent, so the only thing the
        # statement pins down is an integer-valued input that IS a grid point ("exactly so for integer formats given integer-valued inputs"):
        # it comes back unchanged.  Everything else is left unjudged (type aside).
        on_grid = s is None or ((c - cfg.origin) / s).denominator == 1
        if int_input and c.denominator == 1 and on_grid:
            facts["mode"] = "int-exact-fractional-params"
            if rv != c:
                out.append(("int-format-not-exact", {"want": [int(c)], "got": r, "clamped_input": int(c)}))
        else:
            facts["mode"] = "unjudged-int-format-fractional-params"
        return out, facts
    facts["mode"] = "int-exact" if exact else "six-digit"

    if exact:
        if s is None:
            want = [c]
            tie = False
        else:
            q, want, tie = nearest(cfg.origin, s, c)
            facts["tie"] = tie
            facts["on_grid_input"] = (want == [c])
        if rv not in want:
            out.append(("int-format-not-exact", {"want": [int(w) for w in want], "got": r, "clamped_input": int(c)}))
        return out, facts

    tol = tolerance(cfg, c)
    facts["tol"] = tol
    if s is None:
        if is_int_fmt:
            # nearest integer, either neighbour on a tie
            if abs(rv - c) > Fraction(1, 2) + tol:
                out.append(("not-nearest", {"got": r, "clamped_input": float(c), "allowed_distance": float(Fraction(1, 2) + tol)}))
        else:
            if abs(rv - c) > tol:
                out.append(("not-nearest", {"got": r, "clamped_input": float(c), "allowed_distance": float(tol)}))
    else:
        o = cfg.origin
        q, want, tie = nearest(o, s, c)
        facts["tie"] = tie
        facts["on_grid_input"] = (want == [c])
        kk = (rv - o) / s
        kf = math.floor(kk)
        dist_grid = min(abs(rv - (o + kf * s)), abs(rv - (o + (kf + 1) * s)))
        if dist_grid > tol:
            out.append(("off-grid", {"got": r, "distance_to_grid": float(dist_grid), "tolerance": float(tol)}))
        if abs(rv - c) > s / 2 + tol:
            out.append(("not-nearest", {"got": r, "clamped_input": float(c), "want": [float(w) for w in want], "allowed_distance": float(s / 2 + tol)}))
        elif tie and q >= 0 and 4 * tol < s and not out:
            upper = want[0]
            if abs(rv - upper) > tol:
                out.append(("tie-not-up", {"got": r, "want": float(upper), "clamped_input": float(c)}))
    # ---- range, when the bounds are themselves on the grid
    lo_ok, hi_ok = cfg.bounds_on_grid()
    lo_eff = cfg.lo if cfg.lo is not None else Fraction(0)
    exact_range = s is not None and all(fits6(v) for v in (lo_eff, s)) and (
        cfg.hi is None or (fits6(cfg.hi) and fits6(cfg.hi - lo_eff) and fits6((cfg.hi - lo_eff) / s))
    )
    if s is None and not is_int_fmt:
        exact_range = False
    rtol = Fraction(0) if (exact_range or (is_int_fmt and s is None and cfg.integer_params)) else tol
    if lo_ok and rv < cfg.lo - rtol:
        out.append(("out-of-range", {"got": r, "min": float(cfg.lo), "tolerance": float(rtol)}))
    if hi_ok and rv > cfg.hi + rtol:
        out.append(("out-of-range", {"got": r, "max": float(cfg.hi), "tolerance": float(rtol)}))
    return out, facts

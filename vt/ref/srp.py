"""Reference SRP-6a as HomeKit uses it (HAP R2 5.5 + RFC 5054 / RFC 2945), independent of aiohomekit.

Parametric in the group and the hash so that the arithmetic can be validated against RFC 5054 appendix B
(1024-bit group, SHA-1).  HomeKit instance: RFC 5054 3072-bit group, g = 5, SHA-512.

  PAD(x)  = x left-padded with zeros to len(N)
  k = H(N | PAD(g))            u = H(PAD(A) | PAD(B))         x = H(s | H(I ":" P))
  v = g^x                      A = g^a                        B = k v + g^b
  S = (B - k g^x)^(a + u x) = (A v^u)^b                       K = H(PAD(S))
  M1 = H(H(N) xor H(g) | H(I) | s | PAD(A) | PAD(B) | K)      M2 = H(PAD(A) | M1 | K)
"""
from __future__ import annotations

import hashlib

N3072_HEX = (
    "FFFFFFFF FFFFFFFF C90FDAA2 2168C234 C4C6628B 80DC1CD1 29024E08 8A67CC74 020BBEA6 3B139B22 514A0879 8E3404DD"
    "EF9519B3 CD3A431B 302B0A6D F25F1437 4FE1356D 6D51C245 E485B576 625E7EC6 F44C42E9 A637ED6B 0BFF5CB6 F406B7ED"
    "EE386BFB 5A899FA5 AE9F2411 7C4B1FE6 49286651 ECE45B3D C2007CB8 A163BF05 98DA4836 1C55D39A 69163FA8 FD24CF5F"
    "83655D23 DCA3AD96 1C62F356 208552BB 9ED52907 7096966D 670C354E 4ABC9804 F1746C08 CA18217C 32905E46 2E36CE3B"
    "E39E772C 180E8603 9B2783A2 EC07A28F B5C55DF0 6F4C52C9 DE2BCBF6 95581718 3995497C EA956AE5 15D22618 98FA0510"
    "15728E5A 8AAAC42D AD33170D 04507A33 A85521AB DF1CBA64 ECFB8504 58DBEF0A 8AEA7157 5D060C7D B3970F85 A6E1E4C7"
    "ABF5AE8C DB0933D7 1E8C94E0 4A25619D CEE3D226 1AD2EE6B F12FFA06 D98A0864 D8760273 3EC86A64 521F2B18 177B200C"
    "BBE11757 7A615D6C 770988C0 BAD946E2 08E24FA0 74E5AB31 43DB5BFC E0FD108E 4B82D120 A93AD2CA FFFFFFFF FFFFFFFF"
)
N3072 = int(N3072_HEX.replace(" ", ""), 16)

N1024 = int(
    "EEAF0AB9ADB38DD69C33F80AFA8FC5E86072618775FF3C0B9EA2314C9C256576D674DF7496EA81D3383B4813D692C6E0E0D5D8E250B98BE4"
    "8E495C1D6089DAD15DC7D7B46154D6B6CE8EF4AD69B15D4982559B297BCF1885C529F566660E57EC68EDBC3C05726CC02FD4CBF4976EAA9A"
    "FD5138FE8376435B9FC61D2FC0EB06E3",
    16,
)


class Group:
    def __init__(self, N: int, g: int, hashname: str):
        self.N, self.g, self.hashname = N, g, hashname
        self.nlen = (N.bit_length() + 7) // 8

    def H(self, *parts: bytes) -> bytes:
        h = hashlib.new(self.hashname)
        for p in parts:
            h.update(p)
        return h.digest()

    def i2b(self, x: int) -> bytes:
        return x.to_bytes((x.bit_length() + 7) // 8, "big")

    def pad(self, x: int) -> bytes:
        return x.to_bytes(self.nlen, "big")

    def k(self) -> int:
        return int.from_bytes(self.H(self.i2b(self.N), self.pad(self.g)), "big")


HOMEKIT = Group(N3072, 5, "sha512")
RFC5054_1024 = Group(N1024, 2, "sha1")


def x_of(G: Group, salt: bytes, user: str, password: str) -> int:
    return int.from_bytes(G.H(salt, G.H(f"{user}:{password}".encode())), "big")


class Exchange:
    """One complete exchange computed from both sides; all values exposed for the oracle."""

    def __init__(self, G: Group, user: str, password: str, salt: bytes, a: int, b: int, server_password: str | None = None):
        self.G = G
        N, g = G.N, G.g
        k = G.k()
        spw = password if server_password is None else server_password
        self.salt = salt
        # accessory side (knows server_password)
        xs = x_of(G, salt, user, spw)
        v = pow(g, xs, N)
        self.B = (k * v + pow(g, b, N)) % N
        self.A = pow(g, a, N)
        self.A_pad, self.B_pad = G.pad(self.A), G.pad(self.B)
        self.u = int.from_bytes(G.H(self.A_pad, self.B_pad), "big")
        self.S_server = pow(self.A * pow(v, self.u, N) % N, b, N)
        self.K_server = G.H(G.pad(self.S_server))
        # controller side (knows password)
        xc = x_of(G, salt, user, password)
        self.S_client = pow((self.B - k * pow(g, xc, N)) % N, a + self.u * xc, N)
        self.K_client = G.H(G.pad(self.S_client))
        hn, hg = G.H(G.i2b(N)), G.H(G.i2b(g))
        self.hgroup = bytes(x ^ y for x, y in zip(hn, hg))
        self.hI = G.H(user.encode())
        self.M1_client = self.m1(self.K_client)
        self.M1_server = self.m1(self.K_server)
        self.M2_server = G.H(self.A_pad, self.M1_server, self.K_server)

    def m1(self, K: bytes) -> bytes:
        return self.G.H(self.hgroup, self.hI, self.salt, self.A_pad, self.B_pad, K)

    def server_accepts(self, A_bytes: bytes, M1: bytes) -> bool:
        """Would the conformant accessory accept this public key + proof?"""
        return bytes(A_bytes) == self.A_pad and bytes(M1) == self.M1_server

    def server_accepts_foreign(self, A_bytes: bytes, M1: bytes, b: int, user: str, spw: str) -> bool:
        """Accessory verdict for an arbitrary client public key (recomputes S from A_bytes)."""
        G = self.G
        N = G.N
        A = int.from_bytes(A_bytes, "big")
        if A % N == 0:
            return False
        v = pow(G.g, x_of(G, self.salt, user, spw), N)
        u = int.from_bytes(G.H(G.pad(A), self.B_pad), "big")
        S = pow(A * pow(v, u, N) % N, b, N)
        K = G.H(G.pad(S))
        return bytes(M1) == G.H(self.hgroup, self.hI, self.salt, G.pad(A), self.B_pad, K)

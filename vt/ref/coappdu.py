"""Independent HAP-over-CoAP (Thread) PDU batch layer, accessory side.  Imports nothing from aiohomekit.

The secured endpoint carries the HAP PDU format of the BLE transport (HAP R2 §7.3.3) without fragmentation, the
body length always present, several PDUs concatenated in one payload and answered in the same order:
request  item :  control(0x00) | opcode | tid | iid (LE16) | body length (LE16) | body
response item :  control(0x02) | tid | status | body length (LE16) | body
control bits 3..1 = PDU type (000 request, 001 response).  The payload is sealed with ChaCha20-Poly1305, no AAD,
nonce = 4 zero bytes | LE64 counter, one counter per direction, counted per payload.
"""
from __future__ import annotations

from vt.ref import crypto

TYPE_MASK = 0x0E
TYPE_RESPONSE = 0x02
OP_CHAR_WRITE = 0x02
OP_CHAR_READ = 0x03


class Malformed(Exception):
    pass


def parse_requests(data: bytes):
    """-> list of (control, opcode, tid, iid, body); strict."""
    data = bytes(data)
    pos = 0
    out = []
    while pos < len(data):
        if pos + 7 > len(data):
            raise Malformed("request-header-cut")
        control, opcode, tid = data[pos], data[pos + 1], data[pos + 2]
        iid = int.from_bytes(data[pos + 3 : pos + 5], "little")
        n = int.from_bytes(data[pos + 5 : pos + 7], "little")
        if pos + 7 + n > len(data):
            raise Malformed("request-body-cut")
        out.append((control, opcode, tid, iid, data[pos + 7 : pos + 7 + n]))
        pos += 7 + n
    return out


def build_responses(items) -> bytes:
    """items: (control, tid, status, body)."""
    out = bytearray()
    for control, tid, status, body in items:
        body = bytes(body)
        out += bytes((control & 0xFF, tid & 0xFF, status & 0xFF)) + len(body).to_bytes(2, "little") + body
    return bytes(out)


class Session:
    """Accessory side of the CoAP session security."""

    def __init__(self, c2a_key: bytes, a2c_key: bytes):
        self.c2a, self.a2c = c2a_key, a2c_key
        self.rx = 0
        self.tx = 0

    def open(self, ct: bytes):
        pt = crypto.open_(self.c2a, crypto.nonce_ctr(self.rx), bytes(ct))
        if pt is not None:
            self.rx += 1
        return pt

    def seal(self, pt: bytes) -> bytes:
        ct = crypto.seal(self.a2c, crypto.nonce_ctr(self.tx), bytes(pt))
        self.tx += 1
        return ct

"""Reference HAP-BLE accessory at the GATT level (HAP R2 ch. 7.3): PDU reassembly (7-byte first header incl. 2-byte
body length, 2-byte continuation header with the 0x80 flag), per-fragment AEAD with per-direction counters once a
session is verified, pair-verify / pair-resume / pairings on the pairing characteristics, characteristic read/write
with scripted statuses, protocol configuration.  Imports nothing from aiohomekit."""
from __future__ import annotations

import struct

from vt.ref import crypto as C
from vt.ref import hap, tlv8

OP_SIG_READ, OP_WRITE, OP_READ, OP_TIMED_WRITE, OP_EXEC_WRITE, OP_SVC_SIG_READ, OP_CHAR_CONFIG, OP_PROTO_CONFIG = 1, 2, 3, 4, 5, 6, 7, 8

UUID_SUFFIX = "-0000-1000-8000-0026BB765291"
SVC_INFO, SVC_LIGHT, SVC_PAIRING, SVC_PROTO = ("0000003E" + UUID_SUFFIX, "00000043" + UUID_SUFFIX, "00000055" + UUID_SUFFIX, "000000A2" + UUID_SUFFIX)
CH_PAIR_SETUP, CH_PAIR_VERIFY, CH_FEATURES, CH_PAIRINGS, CH_SVC_SIG = ("0000004C" + UUID_SUFFIX, "0000004E" + UUID_SUFFIX, "0000004F" + UUID_SUFFIX, "00000050" + UUID_SUFFIX, "000000A5" + UUID_SUFFIX)

FMT = {"bool": "?", "uint8": "B", "uint16": "H", "uint32": "I", "uint64": "Q", "int": "i", "float": "f"}


def pack_value(fmt, v):
    if fmt in FMT:
        return struct.pack("<" + FMT[fmt], v)
    if fmt == "string":
        return v.encode()
    return bytes(v)


class Char:
    def __init__(self, iid, svc_type, svc_iid, ctype, fmt="bool", perms=("pr", "pw", "ev"), value=0):
        self.iid, self.svc_type, self.svc_iid, self.type, self.format, self.perms, self.value = iid, svc_type, svc_iid, ctype, fmt, list(perms), value


def default_chars():
    return [
        Char(2, SVC_INFO, 1, "00000023" + UUID_SUFFIX, "string", ("pr",), "Acc"),
        Char(3, SVC_INFO, 1, "00000014" + UUID_SUFFIX, "bool", ("pw",), False),
        Char(9, SVC_LIGHT, 8, "00000025" + UUID_SUFFIX, "bool", ("pr", "pw", "ev"), False),
        Char(10, SVC_LIGHT, 8, "00000008" + UUID_SUFFIX, "int", ("pr", "pw", "ev"), 50),
        Char(11, SVC_LIGHT, 8, "00000013" + UUID_SUFFIX, "float", ("pw", "tw"), 0.0),
        Char(12, SVC_LIGHT, 8, "0000002F" + UUID_SUFFIX, "int", ("pw",), 0),
        Char(21, SVC_PAIRING, 20, CH_PAIR_SETUP, "data", ("pr", "pw"), b""),
        Char(22, SVC_PAIRING, 20, CH_PAIR_VERIFY, "data", ("pr", "pw"), b""),
        Char(23, SVC_PAIRING, 20, CH_FEATURES, "uint8", ("pr",), 0),
        Char(24, SVC_PAIRING, 20, CH_PAIRINGS, "data", ("pr", "pw"), b""),
        Char(31, SVC_PROTO, 30, CH_SVC_SIG, "data", ("pr",), b""),
    ]


def accessories_json(chars):
    """entity map (the JSON shape the library caches) for the given chars."""
    svcs = {}
    for c in chars:
        svcs.setdefault((c.svc_iid, c.svc_type), []).append({"iid": c.iid, "type": c.type, "perms": c.perms, "format": c.format, **({"value": c.value} if "pr" in c.perms and c.format != "data" else {})})
    return [{"aid": 1, "services": [{"iid": si, "type": st, "characteristics": cs} for (si, st), cs in svcs.items()]}]


class BleAccessory:
    def __init__(self, seed, acc_id=b"AA:BB:CC:DD:EE:FF", chars=None):
        self.seed = seed
        self.ident = hap.Identity(seed, "acc", acc_id)
        self.ios = hap.Identity(seed, "ios", b"decc6fa3-de3e-41c9-adba-ef7409821bfc")
        self.controllers = {self.ios.id: self.ios.pk}
        self.chars = {c.iid: c for c in (chars or default_chars())}
        self.resp_fragment = 512  # accessory's response fragment size (harness may change)
        self.script = {}  # (opcode, iid) -> status byte to answer with
        self.writes = []  # (iid, value bytes) accepted
        self.gsn, self.cn = 5, 1
        self.n_sessions = 0
        self.resumable = {}  # session id -> shared secret
        self.pairings_reply = None  # override for pairings M2 TLV items
        self.verify_reply_edit = None
        self.setup = hap.SetupService(self.ident, "111-22-333", seed)
        self.setup.controllers = self.controllers
        self.reset_link()

    # ---- link / session state (reset on every GATT connection)
    def reset_link(self):
        self.rx = {}  # iid -> dict(expect, buf, opcode, tid)
        self.out = {}  # iid -> list of response fragments waiting to be read
        self.secure = None  # dict(c2a key, a2c key, c2a ctr, a2c ctr)
        self.pv = None
        self.errors = []
        self.frames_out = []  # every genuine fragment emitted in this link: (seq, bytes)
        self.m3_ok = None
        self.setup.reset()

    def pairing_data(self):
        return {
            "AccessoryPairingID": self.ident.id.decode(), "AccessoryLTPK": self.ident.pk.hex(), "iOSPairingId": self.ios.id.decode(),
            "iOSDeviceLTSK": C.det_bytes(self.seed, "ltsk|ios").hex(), "iOSDeviceLTPK": self.ios.pk.hex(), "AccessoryAddress": "00:11:22:33:44:55", "Connection": "BLE",
        }

    # ---- GATT
    def gatt_write(self, iid, data: bytes):
        if self.secure and iid not in (22,):
            pt = C.open_(self.secure["c2a"], C.nonce_ctr(self.secure["c2a_ctr"]), data)
            if pt is None:
                self.errors.append(f"fragment for iid {iid} does not authenticate under counter {self.secure['c2a_ctr']}")
                return
            self.secure["c2a_ctr"] += 1
            data = pt
        st = self.rx.get(iid)
        if st is None:
            if len(data) < 5 or data[0] & 0x80:
                self.errors.append(f"bad first fragment {data[:8].hex()}")
                return
            opcode, tid, riid = data[1], data[2], int.from_bytes(data[3:5], "little")
            if len(data) >= 7:
                expect = int.from_bytes(data[5:7], "little")
                buf = bytearray(data[7:])
            else:
                expect, buf = 0, bytearray()
            st = self.rx[iid] = dict(opcode=opcode, tid=tid, iid=riid, expect=expect, buf=buf)
        else:
            if not data[0] & 0x80 or data[1] != st["tid"]:
                self.errors.append("bad continuation fragment")
                return
            st["buf"] += data[2:]
        if len(st["buf"]) >= st["expect"]:
            del self.rx[iid]
            self.last_request = dict(st, body=bytes(st["buf"]))
            status, body = self.process(iid, st["opcode"], st["iid"], bytes(st["buf"]))
            self.queue_response(iid, st["tid"], status, body)

    def queue_response(self, iid, tid, status, body, fragment=None, secure_override=None):
        fragment = fragment or self.resp_fragment
        pdu = bytes([0x02, tid, status])
        if body is not None:
            pdu += len(body).to_bytes(2, "little") + body
        frags = [pdu[:fragment]]
        rest = pdu[fragment:]
        while rest:
            frags.append(bytes([0x82, tid]) + rest[: fragment - 2])
            rest = rest[fragment - 2 :]
        out = self.out.setdefault(iid, [])
        for f in frags:
            if self.secure and iid not in (22,):
                f = C.seal(self.secure["a2c"], C.nonce_ctr(self.secure["a2c_ctr"]), f)
                self.secure["a2c_ctr"] += 1
            self.frames_out.append((len(self.frames_out), f))
            out.append(f)

    def gatt_read(self, iid) -> bytes:
        q = self.out.get(iid)
        if not q:
            return b""
        f = q.pop(0)
        if iid == 22 and not q:
            self.activate_pending()
        return f

    # ---- HAP procedures
    def process(self, gatt_iid, opcode, iid, body):
        key = (opcode, iid)
        if key in self.script:
            st = self.script[key]
            if st != 0:
                return st, None
        ch = self.chars.get(iid)
        if opcode == OP_WRITE:
            try:
                d = dict(tlv8.decode(body))
            except tlv8.Malformed:
                return 6, None
            value = d.get(1, b"")
            if ch is not None and ch.type == CH_PAIR_VERIFY:
                return 0, tlv8.encode([(1, self.pair_verify(value))])
            if ch is not None and ch.type == CH_PAIR_SETUP:
                return 0, tlv8.encode([(1, tlv8.encode(self.setup.handle(value)))])
            if ch is not None and ch.type == CH_PAIRINGS:
                return 0, tlv8.encode([(1, self.pairings(value))])
            if ch is None:
                return 4, None
            self.writes.append((iid, value))
            return 0, (tlv8.encode([(1, b"")]) if d.get(9) else None)
        if opcode == OP_READ:
            if ch is None:
                return 4, None
            return 0, tlv8.encode([(1, pack_value(ch.format, ch.value))])
        if opcode == OP_TIMED_WRITE:
            self.timed = (iid, body)
            return 0, None
        if opcode == OP_EXEC_WRITE:
            tiid, tbody = getattr(self, "timed", (None, b""))
            if tiid == iid:
                d = dict(tlv8.decode(tbody[2:]))
                self.writes.append((iid, d.get(1, b"")))
            return 0, None
        if opcode == OP_PROTO_CONFIG:
            if body[:1] == b"\x02":
                return 0, tlv8.encode([(1, self.gsn.to_bytes(2, "little")), (2, bytes([self.cn])), (3, bytes.fromhex(self.ident.id.decode().replace(":", "")))])
            return 0, None
        if opcode == OP_CHAR_CONFIG:
            return 0, None
        return 1, None

    def pair_verify(self, value: bytes) -> bytes:
        try:
            req = dict(tlv8.decode(value))
        except tlv8.Malformed:
            return tlv8.encode([(hap.T_STATE, b"\x02"), (hap.T_ERROR, b"\x01")])
        st = req.get(hap.T_STATE)
        if st == b"\x01" and req.get(hap.T_METHOD) == bytes([hap.M_RESUME]):
            self.resume_requests = getattr(self, "resume_requests", 0) + 1
            if getattr(self, "resume_reply_override", None) is not None:
                return tlv8.encode(self.resume_reply_override)  # scripted answer to a resumed pair-verify M1 (an error, a wrong step)
            sid = bytes(req.get(hap.T_SESSID, b""))
            prev = self.resumable.get(sid)
            ios_pub = bytes(req.get(hap.T_PK, b""))
            if prev is not None and hap.resume_check_m1(req, prev, sid):
                self.n_sessions += 1
                new_sid = C.det_bytes(self.seed, f"sid|{self.n_sessions}", 8)
                items, new_shared = hap.resume_m2(ios_pub, prev, new_sid)
                del self.resumable[sid]
                self.resumable[new_sid] = new_shared
                self._install(new_shared)
                self.resumed = True
                return tlv8.encode(items)
            # unknown session: fall through to a full verify
        if st == b"\x01":
            ios_pub = bytes(req.get(hap.T_PK, b""))
            self.n_sessions += 1
            items, shared, acc_pub = hap.pv_m2(self.ident, C.det_bytes(self.seed, f"acc-eph|{self.n_sessions}"), ios_pub)
            if self.verify_reply_edit:
                items = self.verify_reply_edit(items)
            self.pv = (shared, acc_pub, ios_pub)
            return tlv8.encode(items)
        if st == b"\x03" and self.pv:
            shared, acc_pub, ios_pub = self.pv
            self.m3_ok = hap.pv_check_m3(req, shared, acc_pub, ios_pub, self.controllers)
            if not self.m3_ok:
                return tlv8.encode([(hap.T_STATE, b"\x04"), (hap.T_ERROR, b"\x02")])
            self.resumable[hap.session_keys(shared)["session_id"]] = shared
            self._install(shared)
            self.resumed = False
            return tlv8.encode([(hap.T_STATE, b"\x04")])
        return tlv8.encode([(hap.T_STATE, b"\x02"), (hap.T_ERROR, b"\x01")])

    def _install(self, shared):
        k = hap.session_keys(shared)
        self.pending_secure = dict(c2a=k["c2a"], a2c=k["a2c"], c2a_ctr=0, a2c_ctr=0, shared=shared)

    def activate_pending(self):
        """The session keys take effect after the final pair-verify response has been read."""
        if getattr(self, "pending_secure", None):
            self.secure = self.pending_secure
            self.pending_secure = None

    def pairings(self, value: bytes) -> bytes:
        if self.pairings_reply is not None:
            return tlv8.encode(self.pairings_reply)
        try:
            req = dict(tlv8.decode(value))
        except tlv8.Malformed:
            return tlv8.encode([(hap.T_STATE, b"\x02"), (hap.T_ERROR, b"\x01")])
        m = req.get(hap.T_METHOD)
        if m == b"\x05":
            items = [(hap.T_STATE, b"\x02")]
            for i, (cid, pk) in enumerate(self.controllers.items()):
                if i:
                    items.append((255, b""))
                items += [(hap.T_ID, cid), (hap.T_PK, pk), (hap.T_PERM, b"\x01")]
            return tlv8.encode(items)
        if m == b"\x03":
            self.controllers[bytes(req[hap.T_ID])] = bytes(req[hap.T_PK])
        elif m == b"\x04":
            self.controllers.pop(bytes(req[hap.T_ID]), None)
        return tlv8.encode([(hap.T_STATE, b"\x02")])

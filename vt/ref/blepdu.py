"""Independent HAP-BLE PDU layer, accessory side, written from the HAP specification (R2 §7.3.3 "HAP PDU format",
§7.3.3.5 "HAP PDU fragmentation scheme", §7.3.1 session security).  Imports nothing from aiohomekit.

control field (1 byte):  bit 7 = 0 first fragment (or unfragmented) / 1 continuation fragment
                         bit 4 = 0 16-bit instance id,  bits 3..1 = PDU type (000 request, 001 response),  bit 0 = 0 (1-byte control)
request,  first fragment :  control | opcode | tid | iid (LE16) [ | body length (LE16) | body... ]      (5 or >= 7 bytes)
request,  continuation   :  control(0x80) | tid | body...
response, first fragment :  control(0x02) | tid | status [ | body length (LE16) | body... ]             (3 or >= 5 bytes)
response, continuation   :  control(0x82) | tid | body...
Only the first fragment carries the body length; a body is complete when that many bytes arrived.
In a secure session every GATT write / read value is sealed on its own with ChaCha20-Poly1305, no AAD,
nonce = 4 zero bytes | LE64 counter, one counter per direction, counted per fragment (= per GATT operation).
"""
from __future__ import annotations

from vt.ref import crypto

CONT = 0x80
TYPE_MASK = 0x0E
TYPE_REQUEST = 0x00
TYPE_RESPONSE = 0x02
TAG = 16


class Malformed(Exception):
    """A conformant accessory would refuse this fragment."""


class Request:
    __slots__ = ("opcode", "tid", "iid", "body", "has_length", "fragments")

    def __init__(self, opcode, tid, iid, body, has_length, fragments):
        self.opcode, self.tid, self.iid, self.body, self.has_length, self.fragments = opcode, tid, iid, body, has_length, fragments


class RequestAssembler:
    """Feeds on the plaintext of successive GATT writes; `feed` returns a Request once it is complete, else None."""

    def __init__(self):
        self._reset()

    def _reset(self):
        self.head = None
        self.want = 0
        self.buf = bytearray()
        self.nfrag = 0

    @property
    def idle(self):
        return self.head is None

    def feed(self, frag: bytes):
        frag = bytes(frag)
        if self.head is None:
            if len(frag) < 5:
                raise Malformed("first-fragment-shorter-than-header")
            control, opcode, tid = frag[0], frag[1], frag[2]
            if control & CONT:
                raise Malformed("first-fragment-has-continuation-flag")
            if control & TYPE_MASK != TYPE_REQUEST or control & 0x11:
                raise Malformed("first-fragment-control-not-a-request")
            iid = int.from_bytes(frag[3:5], "little")
            if len(frag) == 5:
                self._reset()
                return Request(opcode, tid, iid, b"", False, 1)
            if len(frag) < 7:
                raise Malformed("first-fragment-cuts-body-length")
            self.want = int.from_bytes(frag[5:7], "little")
            self.buf = bytearray(frag[7:])
            self.head = (opcode, tid, iid)
            self.nfrag = 1
        else:
            if len(frag) < 2:
                raise Malformed("continuation-shorter-than-header")
            if not frag[0] & CONT:
                raise Malformed("continuation-flag-missing")
            if frag[0] & TYPE_MASK != TYPE_REQUEST or frag[0] & 0x11:
                raise Malformed("continuation-control-not-a-request")
            if frag[1] != self.head[1]:
                raise Malformed("continuation-tid-differs")
            if len(frag) == 2:
                raise Malformed("continuation-carries-no-data")
            self.buf += frag[2:]
            self.nfrag += 1
        if len(self.buf) > self.want:
            raise Malformed("more-body-than-announced")
        if len(self.buf) == self.want:
            opcode, tid, iid = self.head
            r = Request(opcode, tid, iid, bytes(self.buf), True, self.nfrag)
            self._reset()
            return r
        return None


def response_fragments(tid: int, status: int, body: bytes, parts=None, bare=False, first_control=TYPE_RESPONSE, cont_control=CONT | TYPE_RESPONSE):
    """Fragments of one response.  `parts`: lengths of the body pieces, first fragment first (its piece may be 0);
    None = unfragmented.  bare=True (only with an empty body): 3-byte response without a length field."""
    body = bytes(body)
    if bare:
        if body:
            raise ValueError("bare response cannot carry a body")
        return [bytes((first_control, tid, status))]
    if parts is None:
        parts = [len(body)]
    if sum(parts) != len(body) or any(p <= 0 for p in parts[1:]) or parts[0] < 0:
        raise ValueError("parts do not compose the body")
    out = []
    pos = 0
    for i, p in enumerate(parts):
        piece = body[pos : pos + p]
        pos += p
        if i == 0:
            out.append(bytes((first_control, tid, status)) + len(body).to_bytes(2, "little") + piece)
        else:
            out.append(bytes((cont_control, tid)) + piece)
    return out


def uniform_parts(n: int, size: int):
    """Body piece lengths when every fragment is filled up to `size` bytes (first: 5-byte header, then 2-byte)."""
    if size < 6:
        raise ValueError("size")
    first = min(n, size - 5)
    parts = [first]
    n -= first
    while n > 0:
        p = min(n, size - 2)
        parts.append(p)
        n -= p
    return parts


def compositions(n: int):
    """All 2^(n-1) ordered ways of writing n >= 1 as a sum of positive parts."""
    if n <= 0:
        yield []
        return
    for mask in range(1 << (n - 1)):
        parts, run = [], 1
        for bit in range(n - 1):
            if mask >> bit & 1:
                parts.append(run)
                run = 1
            else:
                run += 1
        parts.append(run)
        yield parts


class Session:
    """Accessory side of the BLE session security: opens controller writes, seals its own fragments."""

    def __init__(self, c2a_key: bytes, a2c_key: bytes):
        self.c2a, self.a2c = c2a_key, a2c_key
        self.rx = 0
        self.tx = 0

    def open(self, ct: bytes):
        pt = crypto.open_(self.c2a, crypto.nonce_ctr(self.rx), bytes(ct))
        if pt is not None:
            self.rx += 1
        return pt

    def seal(self, pt: bytes) -> bytes:
        ct = crypto.seal(self.a2c, crypto.nonce_ctr(self.tx), bytes(pt))
        self.tx += 1
        return ct

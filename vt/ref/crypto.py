"""Reference crypto glue, independent of aiohomekit: HKDF-SHA512 (RFC 5869, own implementation on hmac),
ChaCha20-Poly1305 (cryptography wheel), X25519/Ed25519 helpers (cryptography wheel)."""
from __future__ import annotations

import hashlib
import hmac
import struct

from cryptography.exceptions import InvalidSignature, InvalidTag
from cryptography.hazmat.primitives import serialization
from cryptography.hazmat.primitives.asymmetric import ed25519, x25519
from cryptography.hazmat.primitives.ciphers.aead import ChaCha20Poly1305

RAW = (serialization.Encoding.Raw, serialization.PublicFormat.Raw)


def hkdf(ikm: bytes, salt: bytes, info: bytes, length: int = 32, hashname: str = "sha512") -> bytes:
    hlen = hashlib.new(hashname).digest_size
    if not salt:
        salt = bytes(hlen)
    prk = hmac.new(salt, ikm, hashname).digest()
    okm, t, i = b"", b"", 1
    while len(okm) < length:
        t = hmac.new(prk, t + info + bytes([i]), hashname).digest()
        okm += t
        i += 1
    return okm[:length]


def seal(key: bytes, nonce12: bytes, plaintext: bytes, aad: bytes = b"") -> bytes:
    return ChaCha20Poly1305(key).encrypt(nonce12, plaintext, aad or None)


def open_(key: bytes, nonce12: bytes, ct: bytes, aad: bytes = b""):
    """-> plaintext or None."""
    try:
        return ChaCha20Poly1305(key).decrypt(nonce12, ct, aad or None)
    except InvalidTag:
        return None


def nonce_str(label: bytes) -> bytes:
    assert len(label) == 8
    return b"\x00\x00\x00\x00" + label


def nonce_ctr(counter: int) -> bytes:
    return b"\x00\x00\x00\x00" + struct.pack("<Q", counter)


def ed_priv(seed32: bytes) -> ed25519.Ed25519PrivateKey:
    return ed25519.Ed25519PrivateKey.from_private_bytes(seed32)


def ed_pub_bytes(priv) -> bytes:
    return priv.public_key().public_bytes(*RAW)


def ed_verify(pub32: bytes, sig: bytes, msg: bytes) -> bool:
    try:
        ed25519.Ed25519PublicKey.from_public_bytes(pub32).verify(sig, msg)
        return True
    except (InvalidSignature, ValueError):
        return False


def x_priv(seed32: bytes) -> x25519.X25519PrivateKey:
    return x25519.X25519PrivateKey.from_private_bytes(seed32)


def x_pub_bytes(priv) -> bytes:
    return priv.public_key().public_bytes(*RAW)


def x_exchange(priv, peer_pub32: bytes) -> bytes:
    return priv.exchange(x25519.X25519PublicKey.from_public_bytes(peer_pub32))


def det_bytes(seed, label, n=32) -> bytes:
    """Deterministic key material for harnesses (distinct per (seed,label))."""
    out = b""
    i = 0
    while len(out) < n:
        out += hashlib.sha512(f"vt|{seed}|{label}|{i}".encode()).digest()
        i += 1
    return out[:n]

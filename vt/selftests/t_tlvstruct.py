"""Binds the C16 reference codec (vt/ref/tlvstruct.py) to hand-assembled encodings (HAP R2 14.1.2 examples, a camera
configuration, a BLE service signature, a Thread dataset) and to two accessory databases captured from real devices.
The message *declarations* come from dataclasses (local ones and the package's); no library codec function is called by
the reference."""
import importlib
from dataclasses import dataclass, field

from vt.ref import tlv8
from vt.ref import tlvstruct as ts


def _marker(name):
    return getattr(importlib.import_module("aiohomekit.tlv8"), name)  # plain `class u8(int)` markers


class TLVStruct:  # local stand-in: the reference only looks at the declaration
    pass


def _entry(t):
    return field(default=None, metadata={"tlv_type": t})


def _local_types():
    u8 = _marker("u8")

    @dataclass
    class Ex1(TLVStruct):
        state: u8 = _entry(7)
        message: str = _entry(1)

    @dataclass
    class Ex2(TLVStruct):
        state: u8 = _entry(6)
        certificate: str = _entry(9)
        identifier: str = _entry(1)

    for c in (Ex1, Ex2):  # local classes: resolve annotations by hand (get_type_hints cannot see the closure)
        ts._SCHEMAS[c] = [ts.Field(f.name, f.metadata["tlv_type"], *ts.classify(f.type)) for f in c.__dataclass_fields__.values()]
    return Ex1, Ex2


def test_hap_examples():
    Ex1, Ex2 = _local_types()
    raw1 = bytes.fromhex("070103" "010568656c6c6f")
    assert ts.encode(Ex1, {"state": 3, "message": "hello"}) == raw1
    assert ts.decode(Ex1, raw1) == {"state": 3, "message": "hello"}
    raw2 = b"\x06\x01\x03\x09\xff" + b"a" * 255 + b"\x09\x2d" + b"a" * 45 + b"\x01\x05hello"
    tree2 = {"state": 3, "certificate": "a" * 300, "identifier": "hello"}
    assert ts.encode(Ex2, tree2) == raw2
    assert ts.decode(Ex2, raw2) == tree2


def test_classification_of_package_declarations():
    from aiohomekit.controller.ble.structs import Service
    from aiohomekit.meshcop import Meshcop
    from aiohomekit.model.characteristics.structs import VideoConfigConfiguration, VideoRTPParameters

    kinds = {f.name: (f.tlv_type, f.kind) for f in ts.schema(Service)}
    assert kinds == {"service_properties": (15, "int"), "linked_services": (16, "packed")}
    kinds = {f.name: f.kind for f in ts.schema(VideoConfigConfiguration)}
    assert kinds == {"codec_type": "enum", "codec_params": "list", "video_attrs": "list"}
    assert {f.name: f.kind for f in ts.schema(VideoRTPParameters)}["min_rtcp_interval"] == "unsupported"
    m = {f.name: (f.kind, f.arg) for f in ts.schema(Meshcop)}
    assert m["channel"] == ("int", (2, "big")) and m["networkname"][0] == "str" and m["pskc"][0] == "bytes"
    assert ts.shared_types(Meshcop) == {128: ["discoveryrequest", "discovery_request"], 129: ["discoveryresponse", "discovery_response"]}


def test_camera_configuration_hand_assembled():
    from aiohomekit.model.characteristics.structs import SupportedVideoStreamConfiguration, VideoAttrs

    a1 = bytes.fromhex("01028007" "02023804" "03011e")  # 1920 x 1080 @ 30
    a2 = bytes.fromhex("01020005" "0202d002" "03011e")  # 1280 x 720 @ 30
    assert ts.encode(VideoAttrs, {"width": 1920, "height": 1080, "fps": 30}) == a1
    params = bytes.fromhex("010101" "020102" "030100")
    config = b"\x01\x01\x00" + b"\x02\x09" + params + b"\x03\x18" + a1 + b"\x00\x00" + a2
    want = b"\x01" + bytes([len(config)]) + config
    tree = {
        "config": [
            {
                "codec_type": 0,
                "codec_params": [{"profile_id": 1, "level": 2, "packetization_mode": 0}],
                "video_attrs": [{"width": 1920, "height": 1080, "fps": 30}, {"width": 1280, "height": 720, "fps": 30}],
            }
        ]
    }
    assert ts.encode(SupportedVideoStreamConfiguration, tree) == want
    assert ts.decode(SupportedVideoStreamConfiguration, want) == tree


def test_ble_service_signature_and_thread_dataset():
    from aiohomekit.controller.ble.structs import BleRequest, Service
    from aiohomekit.meshcop import Meshcop

    sig = bytes.fromhex("0f020100" "1004" "1000" "2001")
    assert ts.encode(Service, {"service_properties": 1, "linked_services": [0x0010, 0x0120]}) == sig
    assert ts.decode(Service, sig) == {"service_properties": 1, "linked_services": [0x0010, 0x0120]}
    assert ts.decode(Service, bytes.fromhex("1000")) == {"linked_services": []}
    assert ts.encode(Meshcop, {"channel": 15, "panid": 0x1234, "networkname": "x"}) == bytes.fromhex("0002000f" "01021234" "030178")
    body = bytes(range(256)) + bytes(44)
    enc = ts.encode(BleRequest, {"expect_response": 1, "value": body})
    assert enc == b"\x09\x01\x01" + b"\x01\xff" + body[:255] + b"\x01\x2d" + body[255:]
    assert ts.decode(BleRequest, enc) == {"expect_response": 1, "value": body}


def test_list_split_ignores_separator_lookalikes_inside_values():
    from vt.env.tlvprobe import ProbeAll

    items = [{"blob": b"\x00\x00\x01\xff", "n": 0}, {"blob": bytes(300)}, {"text": "é" * 128}]
    tree = {"leaves": items, "tail": 0}
    enc = ts.encode(ProbeAll, tree)
    assert ts.decode(ProbeAll, enc) == tree
    raw, ok = tlv8.parse_raw(enc)
    assert ok and [t for t, _ in raw][:3] == [11, 11, 11] and all(len(v) == 255 for _, v in raw[:2])


def test_captured_accessory_databases():
    """Real devices (captures kept in the repository's tests): the reference decoder reads them, agrees with what the
    repository's tests assert about the Nanoleaf bulb, and reads the Schlage lock's links as packed 16-bit ids."""
    try:
        mod = importlib.import_module("tests.test_coap_structs")
    except Exception:  # noqa: BLE001  (captures not importable: nothing to bind against)
        return
    from aiohomekit.controller.coap.structs import Pdu09Database

    tree = ts.decode(Pdu09Database, mod.database_nanoleaf_bulb)
    assert len(tree["_accessories"]) == 1
    acc = tree["_accessories"][0]["accessory"]
    assert acc["instance_id"] == 1
    services = [s["service"] for s in acc["_services"]]
    assert [s["instance_id"] for s in services] == [1, 16, 32, 48, 112, 2560]
    bulb = services[3]
    assert bulb["type"] == 0x43 and bulb["properties"] == 1 and bulb["linked_services"] == []
    assert 51 in [c["characteristic"]["instance_id"] for c in bulb["_characteristics"]]

    lock = ts.decode(Pdu09Database, mod.database_schlage_encode_plus)
    services = {s["service"]["instance_id"]: s["service"] for s in lock["_accessories"][0]["accessory"]["_services"]}
    assert services[8192]["linked_services"] == [64080]
    assert services[64080]["linked_services"] == [8192], "ids are packed 2-byte little-endian: 00 20 is service 8192"
    for sv in services.values():
        for iid in sv.get("linked_services", []):
            assert iid in services, "every link of a real accessory names one of its services"

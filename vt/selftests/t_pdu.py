"""Reference HAP PDU layers (vt/ref/blepdu.py, vt/ref/coappdu.py) against hand-assembled byte strings of the HAP-BLE
PDU format (HAP R2 §7.3.3 / §7.3.4 examples: HAP-Characteristic-Signature-Read, HAP-Characteristic-Write)."""
from vt.ref import blepdu, coappdu, crypto


def test_ble_request_without_body():
    # §7.3.4.1: control 0x00, opcode 0x01 (signature read), tid 0x2a, characteristic instance id 0x0010
    r = blepdu.RequestAssembler().feed(bytes.fromhex("00012a1000"))
    assert (r.opcode, r.tid, r.iid, r.body, r.has_length) == (1, 0x2A, 0x10, b"", False)


def test_ble_request_fragmented():
    a = blepdu.RequestAssembler()
    # write request, tid 7, iid 0x0102, body length 5 sent as 2 + 2 + 1
    assert a.feed(bytes.fromhex("0002070201" "0500" "aabb")) is None
    assert a.feed(bytes.fromhex("8007" "ccdd")) is None
    r = a.feed(bytes.fromhex("8007" "ee"))
    assert (r.opcode, r.tid, r.iid, r.body, r.fragments) == (2, 7, 0x0102, bytes.fromhex("aabbccddee"), 3)
    assert a.idle


def test_ble_request_rejections():
    for frags, why in (
        (["0002070201" "0500" "aabb", "0007" "cc"], "continuation-flag-missing"),
        (["0002070201" "0500" "aabb", "8008" "cc"], "continuation-tid-differs"),
        (["0002070201" "0200" "aabbcc"], "more-body-than-announced"),
        (["0002070201" "05"], "first-fragment-cuts-body-length"),
        (["8002070201"], "first-fragment-has-continuation-flag"),
        (["0202070201"], "first-fragment-control-not-a-request"),
        (["00020702"], "first-fragment-shorter-than-header"),
    ):
        a = blepdu.RequestAssembler()
        try:
            for f in frags:
                a.feed(bytes.fromhex(f))
        except blepdu.Malformed as e:
            assert str(e) == why, (frags, str(e))
            continue
        raise AssertionError(frags)


def test_ble_response_fragments():
    assert blepdu.response_fragments(9, 0, b"", bare=True) == [bytes.fromhex("020900")]
    assert blepdu.response_fragments(9, 6, b"") == [bytes.fromhex("020906" "0000")]
    assert blepdu.response_fragments(9, 0, b"abcde", [2, 2, 1]) == [
        bytes.fromhex("020900" "0500") + b"ab",
        bytes.fromhex("8209") + b"cd",
        bytes.fromhex("8209") + b"e",
    ]
    assert blepdu.response_fragments(9, 0, b"abc", [0, 3])[0] == bytes.fromhex("020900" "0300")


def test_compositions_and_uniform_parts():
    for n in range(1, 9):
        comps = list(blepdu.compositions(n))
        assert len(comps) == 2 ** (n - 1) == len({tuple(c) for c in comps})
        assert all(sum(c) == n and min(c) >= 1 for c in comps)
    assert blepdu.uniform_parts(0, 20) == [0]
    assert blepdu.uniform_parts(15, 20) == [15]
    assert blepdu.uniform_parts(16, 20) == [15, 1]
    assert blepdu.uniform_parts(15 + 18 * 3, 20) == [15, 18, 18, 18]


def test_sessions_count_per_operation():
    k1, k2 = bytes(range(32)), bytes(range(32, 64))
    for cls in (blepdu.Session, coappdu.Session):
        acc = cls(k1, k2)
        c0 = crypto.seal(k1, crypto.nonce_ctr(0), b"first")
        c1 = crypto.seal(k1, crypto.nonce_ctr(1), b"second")
        assert acc.open(c1) is None and acc.rx == 0  # out of order: refused, counter untouched
        assert acc.open(c0) == b"first" and acc.open(c1) == b"second" and acc.rx == 2
        assert acc.open(c1) is None  # replay
        s0, s1 = acc.seal(b"x"), acc.seal(b"x")
        assert s0 != s1 and len(s0) == 1 + 16
        assert crypto.open_(k2, crypto.nonce_ctr(1), s1) == b"x"


def test_coap_batch_layout():
    data = bytes.fromhex("0003000a00" "0000" "0002010b00" "0300" "010155")
    assert coappdu.parse_requests(data) == [(0, 3, 0, 10, b""), (0, 2, 1, 11, bytes.fromhex("010155"))]
    for cut in (1, 6, len(data) - 1):
        try:
            coappdu.parse_requests(data[:cut])
        except coappdu.Malformed:
            continue
        raise AssertionError(cut)
    assert coappdu.build_responses([(2, 0, 0, b"\x01\x01\x07"), (2, 1, 6, b"")]) == bytes.fromhex("020000" "0300" "010107" "020106" "0000")

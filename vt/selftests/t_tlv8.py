from vt.ref import tlv8


def test_hap_example_fragmented():
    # HAP spec 14.1.2: state=3, a 300-byte certificate split 255+45, identifier "hello"
    items = [(6, b"\x03"), (9, b"a" * 300), (1, b"hello")]
    enc = tlv8.encode(items)
    assert enc[:3] == b"\x06\x01\x03"
    assert enc[3:5] == b"\x09\xff" and enc[5 + 255 : 5 + 257] == b"\x09\x2d"
    assert enc.endswith(b"\x01\x05hello")
    assert tlv8.decode(enc) == items


def test_zero_len_and_separator():
    assert tlv8.encode([(1, b""), (255, b""), (1, b"x")]) == b"\x01\x00\xff\x00\x01\x01x"
    assert tlv8.decode(b"\x01\x00\xff\x00\x01\x01x") == [(1, b""), (255, b""), (1, b"x")]


def test_exact_255_has_no_empty_fragment():
    assert tlv8.encode([(1, b"z" * 255)]) == b"\x01\xff" + b"z" * 255
    assert tlv8.encode([(1, b"z" * 510)])[257:259] == b"\x01\xff" and len(tlv8.encode([(1, b"z" * 510)])) == 514


def test_malformed():
    for bad in (b"\x01", b"\x01\x02a", b"\x01\x01a\x02"):
        try:
            tlv8.decode(bad)
        except tlv8.Malformed:
            continue
        raise AssertionError(bad)

"""Binds the C14 reference (vt/ref/numgrid.py) to hand-computed examples and to the (input, expected) pairs the
repository's own tests document (tests/test_model.py): the reference must accept every documented pair."""
from fractions import Fraction as F

from vt.ref import numgrid as ng

U32 = 2**32 - 1


def test_parse_decimal():
    assert ng.parse_decimal("27.5") == F(55, 2)
    assert ng.parse_decimal("-3") == -3
    assert ng.parse_decimal("+1e3") == 1000
    assert ng.parse_decimal(".5") == F(1, 2)
    assert ng.parse_decimal("5.") == 5
    assert ng.parse_decimal("2725e-2") == F(109, 4)
    assert ng.parse_decimal("9.223372036854776e+18") == 9223372036854776000
    for bad in ("abc", "", " ", "nan", "inf", "1e", "--1", "0x10", "1/2", "1,5", "1.2.3", ".", "e5", " 1"):
        try:
            ng.parse_decimal(bad)
        except ng.NotNumeric:
            continue
        raise AssertionError(bad)


def test_reading_is_decimal_reading():
    assert ng.reading(27.23) == F(2723, 100)
    assert ng.reading(0.1) == F(1, 10)
    assert ng.reading(1e22) == 10**22
    assert ng.reading(-0.0) == 0
    assert ng.reading(float(2**63)) == 9223372036854776000 and ng.binary_reading(float(2**63)) == 2**63
    for bad in (float("nan"), float("inf"), None, True, [], b"1"):
        try:
            ng.reading(bad)
        except ng.NotNumeric:
            continue
        raise AssertionError(bad)


def test_frac_to_str_round_trips():
    for text in ("27.5", "-0.125", "1000", "0.001", "0", "18446744073709551615.5", "-7.2"):
        assert ng.frac_to_str(ng.parse_decimal(text)) == text


def test_six_digit_helpers():
    assert ng.unit6(F("27.25")) == F(1, 10**4)
    assert ng.unit6(F(1234567)) == 10
    assert ng.unit6(F("0.000123")) == F(1, 10**9)
    assert ng.fits6(F(123456)) and not ng.fits6(F(1234567)) and ng.fits6(F(1234560)) and ng.fits6(F("0.000123456"))
    assert ng.ilog10(F(1)) == 0 and ng.ilog10(F(999999, 1000)) == 2 and ng.ilog10(F(1, 1000)) == -3


def test_nearest():
    assert ng.nearest(F(10), F("0.5"), F("27.25")) == (F("34.5"), [F("27.5")], True)  # tie, non-negative quotient: up
    assert ng.nearest(F(0), F(1), F("-2.5"))[1] == [F(-3), F(-2)]  # tie, negative quotient: either
    assert ng.nearest(F(10), F("0.1"), F("27.23"))[1] == [F("27.2")]
    assert ng.nearest(F("4.5"), F("0.5"), F("27.26"))[1] == [F("27.5")]
    assert ng.nearest(F("4.5"), F(5), F("27.2"))[1] == [F("29.5")]
    assert ng.nearest(F(-50), F(2), F(-49))[1] == [F(-48)]  # origin negative, quotient 0.5 >= 0: up
    assert ng.nearest(F(0), F(5), F(100)) == (F(20), [F(100)], False)


def _ok(fmt, lo, hi, st, x, r):
    return ng.judge(ng.Config(fmt, lo, hi, st), ng.reading(x), r)[0]


def _classes(fmt, lo, hi, st, x, r):
    return [c for c, _ in _ok(fmt, lo, hi, st, x, r)]


def test_judge_integer_exact():
    assert _ok("uint32", 0, U32, 1, 1234567, 1234567) == []
    assert _classes("uint32", 0, U32, 1, 1234567, 1234570) == ["int-format-not-exact"]
    assert _ok("uint32", 0, U32, 1, 2**40, U32) == []
    assert _ok("int", -(2**31), 2**31 - 1, 1, 0, 0) == []
    assert _classes("int", -(2**31), 2**31 - 1, 1, 0, -3648) == ["int-format-not-exact"]
    assert _ok("uint8", 0, 100, 5, 12, 10) == [] and _classes("uint8", 0, 100, 5, 13, 10) == ["int-format-not-exact"]
    assert _ok("int", -50, 50, 2, -49, -48) == [] and _classes("int", -50, 50, 2, -49, -50) == ["int-format-not-exact"]
    assert _ok("int", None, 100, 2, -3, -4) == [] and _ok("int", None, 100, 2, -3, -2) == []  # negative-quotient tie
    assert _ok("uint64", None, None, None, 2**64 - 1, 2**64 - 1) == []
    assert _classes("uint8", 0, 100, 1, 5, 5.0) == ["wrong-result-type"]
    assert _classes("uint8", 0, 100, 1, 5, True) == ["wrong-result-type"]
    # maximum off the grid: the nearest grid point of the clamped input may lie above it
    assert _ok("uint8", 10, 95, 20, 200, 90) == [] and _ok("uint8", 10, 105, 20, 200, 110) == []
    assert _classes("uint8", 10, 105, 20, 200, 90) == ["int-format-not-exact"]


def test_judge_six_digit():
    assert _ok("float", 10, 38, 0.5, 27.25, 27.5) == []
    assert _classes("float", 10, 38, 0.5, 27.25, 27.0) == ["tie-not-up"]
    assert "off-grid" in _classes("float", 10, 38, 0.5, 27.25, 27.3)
    assert _classes("float", 10, 38, 0.5, 27.25, 28.0) == ["not-nearest"]
    assert _classes("float", 10, 38, 0.5, 27.25, 27) == ["wrong-result-type"]
    assert _ok("float", 10, 38, 0.1, 100, 38.0) == []
    assert "out-of-range" in _classes("float", 10, 38, 0.1, 100, 38.1)
    assert _ok("float", 10, 38, 0.5, "27.24999", 27.0) == []
    assert _ok("float", 10, 38, 0.5, "27.249999", 27.5) == [], "within the sixth digit of a tie either side is acceptable"
    # what 6-digit arithmetic legitimately loses at 7 digits, and what it does not
    assert _ok("float", None, None, 0.5, -7654321, -7654300.0) == []
    assert _classes("float", None, None, 0.5, -7654321, -7654000.0) == ["not-nearest"]
    assert _ok("float", None, None, None, 27.23, 27.23) == []
    assert _classes("float", None, None, None, 27.23, 27.24) == ["not-nearest"]
    assert _classes("float", None, None, None, 1, float("nan")) == ["non-finite-result"]
    # integer format, fractional input
    assert _ok("uint8", 0, 100, 1, 28.5, 29) == [] and _classes("uint8", 0, 100, 1, 28.5, 28) == ["tie-not-up"]
    assert _ok("uint8", None, None, None, 28.5, 28) == [] and _ok("uint8", None, None, None, 28.5, 29) == []
    assert _classes("uint8", None, None, None, 28.5, 30) == ["not-nearest"]


# (minValue, maxValue, minStep, format) of the fixtures and the (input, expected) pairs of tests/test_model.py
DOCUMENTED = [
    (("float", 4.5, 32, 0.5), [(27.23, 27.0), (27.6, 27.5), (27.26, 27.5), (27.9, 28.0)]),
    (("float", 7.2, 33.3, 0.1), [(27.23, 27.2), (27.6, 27.6), (27.26, 27.3), (27.9, 27.9), (27.95, 28.0)]),
    (("float", 4.5, 32, 1), [(27.2, 27.5), (27.6, 27.5), (27.9, 27.5)]),
    (("float", 4.5, 32, 2), [(27.2, 26.5), (28.2, 28.5), (27.7, 28.5)]),
    (("float", 4.5, 32, 5), [(27.2, 29.5), (25.0, 24.5), (28.3, 29.5)]),
    (("float", 10, 32, 1), [(27.2, 27.0), (27.6, 28.0), (27.9, 28.0)]),
    (("float", 10, 32, 2), [(27.2, 28.0), (28.2, 28.0), (27.7, 28.0)]),
    (("float", 10, 32, 5), [(27.2, 25.0), (25.0, 25.0), (28.3, 30.0)]),
    (("int", 4, 32, 1), [(27.0, 27), (27.5, 28), (28.0, 28), (28.5, 29), (29.0, 29), (29.5, 30), (27.2, 27), (27.6, 28), (27.9, 28)]),
]


def test_reference_accepts_every_documented_pair():
    for cfg, pairs in DOCUMENTED:
        for x, want in pairs:
            assert _ok(*cfg, x, want) == [], (cfg, x, want, _ok(*cfg, x, want))


def test_reference_rejects_the_neighbours_of_documented_results():
    for cfg, pairs in DOCUMENTED:
        step = cfg[3]
        for x, want in pairs:
            for wrong in (want + step, want - step):
                wrong = type(want)(wrong)
                assert _ok(*cfg, x, wrong) != [], (cfg, x, wrong)

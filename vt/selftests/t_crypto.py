from vt.ref import crypto, srp


def test_hkdf_rfc5869_case1_sha256():
    ikm = bytes.fromhex("0b" * 22)
    salt = bytes.fromhex("000102030405060708090a0b0c")
    info = bytes.fromhex("f0f1f2f3f4f5f6f7f8f9")
    okm = crypto.hkdf(ikm, salt, info, 42, "sha256")
    assert okm.hex() == "3cb25f25faacd57a90434f64d0362f2a2d2d0a90cf1a5a4c5db02d56ecc4c5bf34007208d5b887185865"


def test_hkdf_rfc5869_case3_empty_salt():
    okm = crypto.hkdf(bytes.fromhex("0b" * 22), b"", b"", 42, "sha256")
    assert okm.hex() == "8da4e775a563c18f715f802a063c5a31b8a11f5c5ee1879ec3454e5f3c738d2d9d201395faa4b61a96c8"


def test_hkdf_sha512_matches_cryptography():
    from cryptography.hazmat.primitives import hashes
    from cryptography.hazmat.primitives.kdf.hkdf import HKDF

    for n in (8, 32, 64, 100):
        want = HKDF(algorithm=hashes.SHA512(), length=n, salt=b"Control-Salt", info=b"Control-Read-Encryption-Key").derive(b"k" * 32)
        assert crypto.hkdf(b"k" * 32, b"Control-Salt", b"Control-Read-Encryption-Key", n) == want


def test_aead_rfc8439_vector():
    key = bytes(range(0x80, 0xA0))
    nonce = bytes.fromhex("070000004041424344454647")
    aad = bytes.fromhex("50515253c0c1c2c3c4c5c6c7")
    pt = b"Ladies and Gentlemen of the class of '99: If I could offer you only one tip for the future, sunscreen would be it."
    ct = crypto.seal(key, nonce, pt, aad)
    assert ct[-16:].hex() == "1ae10b594f09e26a7e902ecbd0600691"
    assert ct[:16].hex() == "d31a8d34648e60db7b86afbc53ef7ec2"
    assert crypto.open_(key, nonce, ct, aad) == pt
    bad = bytearray(ct)
    bad[3] ^= 1
    assert crypto.open_(key, nonce, bytes(bad), aad) is None


def test_srp_rfc5054_appendix_b():
    G = srp.RFC5054_1024
    assert G.k() == int("7556AA045AEF2CDD07ABAF0F665C3E818913186F", 16)
    salt = bytes.fromhex("BEB25379D1A8581EB5A727673A2441EE")
    a = int("60975527035CF2AD1989806F0407210BC81EDC04E2762A56AFD529DDDA2D4393", 16)
    b = int("E487CB59D31AC550471E81F00F6928E01DDA08E974A004F49E61F5D105284D20", 16)
    ex = srp.Exchange(G, "alice", "password123", salt, a, b)
    assert srp.x_of(G, salt, "alice", "password123") == int("94B7555AABE9127CC58CCF4993DB6CF84D16C124", 16)
    assert ex.A == int(
        "61D5E490F6F1B79547B0704C436F523DD0E560F0C64115BB72557EC44352E8903211C04692272D8B2D1A5358A2CF1B6E0BFCF99F921530EC"
        "8E39356179EAE45E42BA92AEACED825171E1E8B9AF6D9C03E1327F44BE087EF06530E69F66615261EEF54073CA11CF5858F0EDFDFE15EFEA"
        "B349EF5D76988A3672FAC47B0769447B", 16)
    assert ex.B == int(
        "BD0C61512C692C0CB6D041FA01BB152D4916A1E77AF46AE105393011BAF38964DC46A0670DD125B95A981652236F99D9B681CBF87837EC99"
        "6C6DA04453728610D0C6DDB58B318885D7D82C7F8DEB75CE7BD4FBAA37089E6F9C6059F388838E7A00030B331EB76840910440B1B27AAEAE"
        "EB4012B7D7665238A8E3FB004B117B58", 16)
    assert ex.u == int("CE38B9593487DA98554ED47D70A7AE5F462EF019", 16)
    S = int(
        "B0DC82BABCF30674AE450C0287745E7990A3381F63B387AAF271A10D233861E359B48220F7C4693C9AE12B0A6F67809F0876E2D013800D6C"
        "41BB59B6D5979B5C00A172B4A2A5903A0BDCAF8A709585EB2AFAFA8F3499B200210DCC1F10EB33943CD67FC88A2F39A4BE5BEC4EC0A3212D"
        "C346D7E474B29EDE8A469FFECA686E5A", 16)
    assert ex.S_client == S and ex.S_server == S


def test_srp_homekit_group_is_rfc5054_3072():
    assert srp.N3072.bit_length() == 3072 and srp.HOMEKIT.nlen == 384
    # safe prime sanity: N = 2q+1 with both passing a Fermat test
    N = srp.N3072
    assert pow(2, N - 1, N) == 1 and pow(2, (N - 1) // 2 - 1, (N - 1) // 2) == 1
    ex = srp.Exchange(srp.HOMEKIT, "Pair-Setup", "111-22-333", bytes(16), 12345, 67890)
    assert ex.S_client == ex.S_server and ex.M1_client == ex.M1_server
    ex2 = srp.Exchange(srp.HOMEKIT, "Pair-Setup", "111-22-333", bytes(16), 12345, 67890, server_password="111-22-334")
    assert ex2.S_client != ex2.S_server and ex2.M1_client != ex2.M1_server

"""E4 recorder + crash model (vt/ref/crashfs.py): the recorder must see the operations of the usual ways to save a file,
the model must agree with the real directory when nothing crashes, and must produce the textbook crash states."""
import builtins
import io
import os
import pathlib
import shutil
import tempfile

from vt.ref import crashfs

OLD, NEW = b"OLD-CONTENT", b"new content, longer"


def _run(save):
    d = tempfile.mkdtemp(prefix="vt-selftest-", dir="/tmp")
    try:
        target = os.path.join(d, "f.json")
        with open(target, "wb") as fh:
            fh.write(OLD)
        initial = crashfs.snapshot(d)
        saved = (builtins.open, io.open, os.open, os.replace, os.fsync, os.write, os.close)
        with crashfs.Recorder(d) as rec:
            save(target)
        assert saved == (builtins.open, io.open, os.open, os.replace, os.fsync, os.write, os.close), "recorder did not restore the seams"
        final = crashfs.snapshot(d)
        states, stats = crashfs.crash_states(initial, rec.log)
        # no crash: model == reality
        assert crashfs.state_at(initial, rec.log, len(rec.log), {}) == final, (rec.log, final)
        # every state can be re-created from its coordinates
        for st in states:
            assert crashfs.state_at(initial, rec.log, st["point"], st["persist"]) == st["files"]
        return rec.log, states, stats, final
    finally:
        shutil.rmtree(d, ignore_errors=True)


def _targets(states):
    return {st["files"].get("f.json") for st in states}


def test_in_place_write_loses_old_content():
    def save(t):
        with open(t, "w", encoding="utf-8") as fh:
            fh.write(NEW.decode())

    log, states, stats, final = _run(save)
    assert [op[0] for op in log] == ["open", "write", "close"] and "trunc" in log[0][3]
    assert final == {"f.json": NEW}
    assert _targets(states) == {OLD} | {NEW[:i] for i in range(len(NEW) + 1)}
    assert stats["byte_points"] == len(log) + 1 + len(NEW) - 1


def test_temp_fsync_replace_is_atomic():
    def save(t):
        with open(t + ".tmp", "w", encoding="utf-8") as fh:
            fh.write(NEW.decode()[:5])
            fh.write(NEW.decode()[5:])
            fh.flush()
            os.fsync(fh.fileno())
        os.replace(t + ".tmp", t)

    log, states, _, final = _run(save)
    assert [op[0] for op in log] == ["open", "write", "write", "flush", "fsync", "close", "rename"]
    assert final == {"f.json": NEW}
    assert _targets(states) == {OLD, NEW}
    assert {st["files"].get("f.json.tmp") for st in states} == {None} | {NEW[:i] for i in range(len(NEW) + 1)}


def test_fsync_without_flush_syncs_nothing():
    """fsync of a file object whose bytes still sit in the process buffer makes an empty file durable"""
    def save(t):
        with open(t + ".tmp", "w", encoding="utf-8") as fh:
            fh.write(NEW.decode())
            os.fsync(fh.fileno())
        os.replace(t + ".tmp", t)

    log, states, _, final = _run(save)
    assert [op[0] for op in log] == ["open", "write", "fsync", "close", "rename"]
    assert final == {"f.json": NEW}
    assert b"" in {st["files"]["f.json"] for st in states if st["after"].startswith("rename")}
    assert _targets(states) == {OLD} | {NEW[:i] for i in range(len(NEW) + 1)}


def test_a_file_moved_in_from_elsewhere_is_a_copy():
    """a temporary file outside the modelled directory lives on another filesystem: rename / replace refuse (EXDEV), shutil.move copies in place"""
    import errno
    import shutil
    import tempfile

    def save(t):
        fd, tmp = tempfile.mkstemp(suffix=".tmp")
        with open(fd, "w", encoding="utf-8") as fh:
            fh.write(NEW.decode())
            fh.flush()
            os.fsync(fh.fileno())
        try:
            os.replace(tmp, t)
            raise AssertionError("replace across the boundary went through")
        except OSError as e:
            assert e.errno == errno.EXDEV
        shutil.move(tmp, t)

    log, states, _, final = _run(save)
    assert final == {"f.json": NEW}
    assert [op[0] for op in log][:2] == ["open", "write"], log
    assert b"" in _targets(states) and OLD in _targets(states)  # truncated in place: the old content is gone before the new one is there


def test_temp_replace_without_fsync_is_not():
    def save(t):
        pathlib.Path(t + ".tmp").write_text(NEW.decode(), encoding="utf-8")
        pathlib.Path(t + ".tmp").replace(t)

    log, states, _, _ = _run(save)
    assert [op[0] for op in log] == ["open", "write", "close", "rename"]
    assert _targets(states) == {OLD} | {NEW[:i] for i in range(len(NEW) + 1)}
    assert b"" in {st["files"]["f.json"] for st in states if st["after"].startswith("rename")}


def test_namedtemporaryfile_and_lowlevel_os_calls_are_seen():
    def save_ntf(t):
        with tempfile.NamedTemporaryFile("w", encoding="utf-8", dir=os.path.dirname(t), delete=False) as fh:
            fh.write(NEW.decode())
            fh.flush()
            os.fsync(fh.fileno())
        os.rename(fh.name, t)

    log, states, _, final = _run(save_ntf)
    assert [op[0] for op in log] == ["open", "write", "flush", "fsync", "close", "rename"], log
    assert final == {"f.json": NEW} and _targets(states) == {OLD, NEW}

    def save_fd(t):
        fd = os.open(t + ".x", os.O_WRONLY | os.O_CREAT | os.O_TRUNC, 0o600)
        os.write(fd, NEW[:4])
        os.write(fd, NEW[4:])
        os.fsync(fd)
        os.close(fd)
        os.replace(t + ".x", t)

    log, states, _, final = _run(save_fd)
    assert [op[0] for op in log] == ["open", "write", "write", "fsync", "close", "rename"], log
    assert final == {"f.json": NEW} and _targets(states) == {OLD, NEW}

    def save_fdopen(t):
        fd, name = tempfile.mkstemp(dir=os.path.dirname(t))
        with os.fdopen(fd, "wb") as fh:
            fh.write(NEW)
        os.replace(name, t)

    log, states, _, _ = _run(save_fdopen)
    assert [op[0] for op in log] == ["open", "write", "close", "rename"], log
    assert b"" in _targets(states)


def test_append_and_unsupported_overwrite():
    def save(t):
        with open(t, "ab") as fh:
            fh.write(b"+tail")

    log, states, _, final = _run(save)
    assert final == {"f.json": OLD + b"+tail"}
    assert _targets(states) == {OLD + b"+tail"[:i] for i in range(6)}

    def bad(t):
        with open(t, "r+b") as fh:
            fh.seek(2)
            fh.write(b"zz")

    try:
        _run(bad)
    except crashfs.Unsupported:
        return
    raise AssertionError("seek-and-overwrite must be refused by the model, not silently mis-modelled")

"""Environment conformance: the same scripted scenarios run on a stock asyncio loop over a real socketpair and on
VirtualLoop + MemTransport must produce identical protocol-callback traces.  This is the 'model traces replayed
against the implementation' step for the only model in the system that is not code under test."""
import asyncio
import socket

from vt import vloop


class Rec(asyncio.Protocol):
    def __init__(self, log, keep_open=False, raise_on=None):
        self.log, self.keep_open, self.raise_on = log, keep_open, raise_on

    def connection_made(self, transport):
        self.transport = transport
        self.log.append(("made",))

    def data_received(self, data):
        self.log.append(("data", bytes(data)))
        if self.raise_on is not None and self.raise_on in data:
            raise RuntimeError("boom")

    def eof_received(self):
        self.log.append(("eof",))
        return self.keep_open

    def connection_lost(self, exc):
        self.log.append(("lost", type(exc).__name__))


# a scenario is a list of ops; ops: ('peer_send', b) ('peer_close',) ('close',) ('write', b) ('writelines', [b..]) ('write_eof',)
#   ('mark', x) = loop.call_soon(log.append, ('mark', x)) issued right after the previous op without settling, ('settle',)
SCENARIOS = {
    "data-then-close": (dict(), [("peer_send", b"a"), ("settle",), ("peer_send", b"b"), ("settle",), ("close",), ("mark", 1), ("settle",)]),
    "peer-eof-closes": (dict(), [("peer_send", b"x"), ("settle",), ("peer_close",), ("settle",)]),
    "peer-eof-keep-open": (dict(keep_open=True), [("peer_close",), ("settle",), ("write", b"still"), ("settle",), ("close",), ("settle",)]),
    "exception-in-data-received": (dict(raise_on=b"!"), [("peer_send", b"ok"), ("settle",), ("peer_send", b"bad!"), ("settle",), ("peer_send", b"after"), ("settle",)]),
    "no-data-after-close": (dict(), [("close",), ("peer_send", b"late"), ("settle",)]),
    "write-after-close-dropped": (dict(), [("close",), ("write", b"dropped"), ("writelines", [b"d1", b"d2"]), ("settle",)]),
    "write-after-eof-raises": (dict(), [("write_eof",), ("write", b"x"), ("settle",), ("close",), ("settle",)]),
    "write-eof-then-close": (dict(), [("write", b"req"), ("write_eof",), ("close",), ("mark", 2), ("settle",)]),
    "double-close": (dict(), [("close",), ("close",), ("settle",)]),
    "close-after-eof": (dict(), [("peer_send", b"1"), ("settle",), ("peer_close",), ("settle",), ("close",), ("write", b"w"), ("settle",)]),
    "eof-keep-open-then-data-ignored": (dict(keep_open=True), [("peer_close",), ("settle",), ("close",), ("mark", 3), ("settle",)]),
}


async def _run_real(kw, ops):
    loop = asyncio.get_running_loop()
    a, b = socket.socketpair()
    a.setblocking(False)
    log = []
    peer_rx = bytearray()
    transport, proto = await loop.create_connection(lambda: Rec(log, **kw), sock=a)
    b.setblocking(False)
    for op in ops:
        k = op[0]
        try:
            if k == "peer_send":
                try:
                    b.send(op[1])
                except OSError:
                    pass
            elif k == "peer_close":
                b.shutdown(socket.SHUT_WR)
            elif k == "close":
                transport.close()
            elif k == "write":
                transport.write(op[1])
            elif k == "writelines":
                transport.writelines(op[1])
            elif k == "write_eof":
                transport.write_eof()
            elif k == "mark":
                loop.call_soon(log.append, ("mark", op[1]))
            elif k == "settle":
                for _ in range(3):
                    await asyncio.sleep(0.01)
                try:
                    while True:
                        d = b.recv(65536)
                        if not d:
                            break
                        peer_rx += d
                except (BlockingIOError, OSError):
                    pass
        except (RuntimeError, TypeError) as e:
            log.append(("raised", type(e).__name__))
    transport.abort()
    b.close()
    return log, bytes(peer_rx)


def run_real(kw, ops):
    loop = asyncio.new_event_loop()
    handled = []
    loop.set_exception_handler(lambda l, c: handled.append(type(c.get("exception")).__name__))
    try:
        log, rx = loop.run_until_complete(_run_real(kw, ops))
    finally:
        loop.close()
    return log, rx, handled


def run_virtual(kw, ops):
    loop = vloop.VirtualLoop().install()
    try:
        net = vloop.SimNet(loop)
        log = []
        att = {"t": 0, "hosts": ["h"], "port": 1, "fut": loop.create_future(), "outcome": None}
        conn = net.accept(att, "h")
        sock = att["fut"].result()
        task = loop.create_task(loop.create_connection(lambda: Rec(log, **kw), sock=sock))
        loop.run_until_idle()
        transport, proto = task.result()
        for op in ops:
            k = op[0]
            try:
                if k == "peer_send":
                    conn.send(op[1])
                elif k == "peer_close":
                    conn.peer_close()
                elif k == "close":
                    transport.close()
                elif k == "write":
                    transport.write(op[1])
                elif k == "writelines":
                    transport.writelines(op[1])
                elif k == "write_eof":
                    transport.write_eof()
                elif k == "mark":
                    loop.call_soon(log.append, ("mark", op[1]))
                elif k == "settle":
                    loop.run_until_idle()
            except (RuntimeError, TypeError) as e:
                log.append(("raised", type(e).__name__))
        handled = [type(c.get("exception")).__name__ for c in loop.unhandled]
        return log, b"".join(conn.rx), handled
    finally:
        loop.shutdown()


def _one(name):
    kw, ops = SCENARIOS[name]
    real = run_real(kw, ops)
    virt = run_virtual(kw, ops)
    assert real == virt, f"{name}: real={real} virtual={virt}"


def test_conformance_all_scenarios():
    for name in SCENARIOS:
        _one(name)


def test_virtual_time_and_timeouts():
    loop = vloop.VirtualLoop().install()
    try:
        async def main():
            t0 = loop.time()
            try:
                async with asyncio.timeout(3):
                    await asyncio.sleep(60)
            except TimeoutError:
                pass
            await asyncio.sleep(10)
            return loop.time() - t0

        assert abs(loop.run_coro(main()) - 13.0) < 1e-6
    finally:
        loop.shutdown()


def test_timer_order_and_batch_granularity():
    loop = vloop.VirtualLoop().install()
    try:
        log = []
        loop.call_later(2, log.append, "t2")
        loop.call_later(1, log.append, "t1")
        loop.call_soon(log.append, "now")
        loop.run_until_idle()
        assert log == ["now"]
        loop.fire_next_timer()
        loop.run_until_idle()
        assert log == ["now", "t1"] and loop.time() == 1.0
        loop.advance(5)
        assert log == ["now", "t1", "t2"] and loop.time() == 6.0
    finally:
        loop.shutdown()


def test_close_with_unsent_data_defers_connection_lost():
    """Grounds the slow_close model: a real selector transport whose write buffer is not empty reports connection_lost only after
    the buffer has drained; MemTransport with conn.slow_close does the same under explorer control (complete_close)."""
    # ---- real asyncio over a socketpair whose peer does not read
    async def real():
        loop = asyncio.get_running_loop()
        a, b = socket.socketpair()
        a.setblocking(False)
        b.setblocking(False)
        log = []
        tr, _ = await loop.create_connection(lambda: Rec(log), sock=a)
        tr.write(b"x" * (8 * 1024 * 1024))
        tr.close()
        for _ in range(5):
            await asyncio.sleep(0.01)
        before = list(log)
        # now the peer drains everything
        got = 0
        for _ in range(2000):
            try:
                d = b.recv(1 << 20)
                if not d:
                    break
                got += len(d)
            except BlockingIOError:
                await asyncio.sleep(0.001)
            if ("lost", "NoneType") in log:
                break
        for _ in range(5):
            await asyncio.sleep(0.01)
        b.close()
        return before, list(log)

    loop = asyncio.new_event_loop()
    try:
        before, after = loop.run_until_complete(real())
    finally:
        loop.close()
    assert ("lost", "NoneType") not in before and before == [("made",)], before
    assert after[-1] == ("lost", "NoneType"), after
    # ---- virtual
    vl = vloop.VirtualLoop().install()
    try:
        net = vloop.SimNet(vl)
        att = {"t": 0, "hosts": ["h"], "port": 1, "fut": vl.create_future(), "outcome": None}
        conn = net.accept(att, "h")
        conn.slow_close = True
        log = []
        tr = vloop.MemTransport(vl, Rec(log), att["fut"].result())
        vl.run_until_idle()
        tr.write(b"x" * 100)
        tr.close()
        vl.run_until_idle()
        assert log == [("made",)] and tr.is_closing() and not conn.open
        assert tr.complete_close()
        vl.run_until_idle()
        assert log == [("made",), ("lost", "NoneType")]
    finally:
        vl.shutdown()


def test_write_eof_fails_while_a_reset_is_pending():
    """Grounds MemTransport.write_eof with a pending RST against a real TCP socket: the kernel has the peer's RST, the loop has not polled yet."""
    import asyncio
    import errno
    import socket
    import struct
    import time

    from vt import vloop

    async def real():
        srv = socket.socket()
        srv.bind(("127.0.0.1", 0))
        srv.listen(1)
        loop = asyncio.get_running_loop()
        tr, _ = await loop.create_connection(asyncio.Protocol, "127.0.0.1", srv.getsockname()[1])
        c, _ = srv.accept()
        c.setsockopt(socket.SOL_SOCKET, socket.SO_LINGER, struct.pack("ii", 1, 0))
        c.close()
        time.sleep(0.05)
        try:
            tr.write_eof()
            got = None
        except OSError as e:
            got = e.errno
        tr.abort()
        srv.close()
        return got

    try:
        real_errno = asyncio.run(real())
    except OSError:
        return  # no loopback in this sandbox: nothing to ground against
    assert real_errno == errno.ENOTCONN, real_errno

    loop = vloop.VirtualLoop().install()
    try:
        net = vloop.SimNet(loop)
        att = {"t": 0, "hosts": ["h"], "port": 1, "fut": loop.create_future(), "outcome": None}
        conn = net.accept(att, "h")
        tr = vloop.MemTransport(loop, asyncio.Protocol(), att["fut"].result())
        loop.run_until_idle()
        conn.peer_reset_arrives()
        try:
            tr.write_eof()
            got = None
        except OSError as e:
            got = e.errno
        assert got == errno.ENOTCONN
    finally:
        loop.shutdown()

"""./check selftest — binds the reference models and the environment model to reality (also MANIFEST.setup_cmd)."""
import importlib
import pkgutil
import sys
import traceback


def main():
    import vt.selftests as pkg

    failed = 0
    n = 0
    for m in sorted(pkgutil.iter_modules(pkg.__path__), key=lambda m: m.name):
        mod = importlib.import_module(f"vt.selftests.{m.name}")
        for name in sorted(dir(mod)):
            if name.startswith("test_"):
                n += 1
                try:
                    getattr(mod, name)()
                    print(f"ok   {m.name}.{name}")
                except Exception:  # noqa: BLE001
                    failed += 1
                    print(f"FAIL {m.name}.{name}")
                    traceback.print_exc()
    print(f"selftest: {n - failed}/{n} passed")
    return 0 if not failed else 2

"""CLI: ./check <ID> quick|thorough | ./check <ID> --replay <file> | ./check selftest | ./check all <tier>."""
from __future__ import annotations

import importlib
import json
import logging
import os
import subprocess
import sys
import time
import traceback

REPO = os.environ.get("VERIF_REPO", "/repo")
if REPO not in sys.path[:1]:
    sys.path.insert(0, REPO)

from vt import core  # noqa: E402

ALL = [f"C{n:02d}" for n in range(1, 21)]


def _check_repo():
    import aiohomekit

    got = os.path.dirname(os.path.dirname(os.path.abspath(aiohomekit.__file__)))
    if os.path.realpath(got) != os.path.realpath(REPO):
        raise core.HarnessError(f"aiohomekit imported from {got}, expected {REPO}")


def load(prop):
    return importlib.import_module(f"vt.props.{prop.lower()}")


def validate_evidence(path):
    """Validate with jsonschema from the tooling venv when available (never fatal when it is not)."""
    schema = "/root/.vp/EVIDENCE.schema.json"
    if not (os.path.exists(schema) and os.path.exists("/opt/veriftools/pyvenv/bin/python")):
        return True
    code = (
        "import json,sys,jsonschema;"
        "jsonschema.validate(json.load(open(sys.argv[1])),json.load(open(sys.argv[2])))"
    )
    r = subprocess.run(
        ["/opt/veriftools/pyvenv/bin/python", "-c", code, path, schema], capture_output=True, text=True
    )
    if r.returncode != 0:
        print("HARNESS-ERROR evidence does not validate:", r.stderr[-800:])
        return False
    return True


def run_check(prop, tier):
    logging.disable(logging.CRITICAL)
    seed = int(os.environ.get("VERIF_SEED", "0"))
    mod = load(prop)
    ctx = core.Ctx(prop, tier, seed, mod.META)
    try:
        _check_repo()
        mod.run(ctx)
        rc = core.finish(ctx)
    except core.HarnessError as e:
        print(f"HARNESS-ERROR property={prop}: {e}")
        return 2
    except Exception as e:  # noqa: BLE001
        # while the work was being planned in this process (default executions, roots of the exploration): an exception that starts inside the
        # library and that no harness anticipated is a finding about the tree, exactly as in a worker; anything else is the machinery's fault
        tb, last = e.__traceback__, None
        while tb is not None:
            last = tb.tb_frame.f_code.co_filename
            tb = tb.tb_next
        import aiohomekit

        if last and last.startswith(os.path.dirname(os.path.abspath(aiohomekit.__file__)) + os.sep):
            ctx.acc.case(key=("library-exception-while-planning",), outcome=f"unanticipated-exception-from-the-library:{type(e).__name__}")
            ctx.acc.violation(f"unanticipated-exception-from-the-library:{type(e).__name__}:while-planning", "library-exception", {"phase": "planning"},
                              {"error": f"{type(e).__name__}: {e}"[:300], "traceback_tail": traceback.format_exc()[-1500:]})
            try:
                rc = core.finish(ctx)
            except Exception:  # noqa: BLE001
                traceback.print_exc()
                return 2
        else:
            print(f"HARNESS-ERROR property={prop}: unexpected exception in the machinery")
            traceback.print_exc()
            return 2
    a = ctx.acc
    path = os.path.join(core.OUT, "evidence", f"{prop}.json")
    if not validate_evidence(path) and rc == 0:
        return 2
    print(
        f"{prop} {tier} seed={seed}: evaluations={a.n} distinct={len(a.keys)} states={a.states + len(a.state_keys)} "
        f"transitions={a.transitions} outcomes={len(a.outcomes)} violations={sum(a.viol_count.values())} "
        f"wall={time.time() - ctx.t0:.1f}s rc={rc}"
    )
    return rc


def replay(prop, path):
    logging.disable(logging.CRITICAL)
    _check_repo()
    mod = load(prop)
    with open(path) as f:
        v = json.load(f)
    if v["case"] not in mod.CASES:
        print(f"replay {prop}: case {v['case']!r} is a whole work item of the exploration, not a single case: rerun `./check {prop} quick` to reproduce; recorded detail follows")
        print(json.dumps(v.get("detail"))[:3000])
        return 1
    fn = mod.CASES[v["case"]]
    params = core.unjson(v["params"])
    if isinstance(params, dict) and params.pop("_loglevel", None) == "debug":
        with core.loggers_at_debug():
            out = fn(params)
    else:
        out = fn(params)
    print(f"replay {prop} case={v['case']} params={json.dumps(v['params'])[:600]}")
    if not out:
        print("no violation on replay")
        return 0
    for sig, detail in out:
        print(f"VIOLATION property={prop} replay={path}")
        print(f"  signature: {sig}")
        print(f"  detail: {json.dumps(core.jsonable(detail))[:3000]}")
    return 1


def main(argv):
    if not argv:
        print(__doc__)
        return 2
    if argv[0] == "selftest":
        from vt import selftest

        return selftest.main()
    if argv[0] == "all":
        tier = argv[1] if len(argv) > 1 else "quick"
        rcs = {}
        for p in ALL:
            try:
                load(p)
            except ModuleNotFoundError:
                continue
            rcs[p] = subprocess.call([os.path.join(core.ROOT, "check"), p, tier])
        print(rcs)
        return max(rcs.values()) if rcs else 2
    prop = argv[0].upper()
    if len(argv) >= 3 and argv[1] == "--replay":
        return replay(prop, argv[2])
    tier = argv[1] if len(argv) > 1 else os.environ.get("VERIF_TIER", "quick")
    if tier not in ("quick", "thorough"):
        print("tier must be quick or thorough")
        return 2
    return run_check(prop, tier)


if __name__ == "__main__":
    rc = main(sys.argv[1:])
    sys.stdout.flush()
    os._exit(rc)

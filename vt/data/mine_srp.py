"""Mine SRP *inputs* (code, salt, a, b) whose reference values have a leading zero byte in a given quantity.
Uses only the reference (vt/ref/srp.py).  Output: vt/data/srp_corpus.json  (inputs only, never expected outputs).
    PYTHONPATH=/verif /venv/bin/python -m vt.data.mine_srp
"""
import json
import multiprocessing as mp
import os

from vt.ref import srp
from vt.ref.crypto import det_bytes

G = srp.HOMEKIT
USER = "Pair-Setup"
TARGETS = ["A", "B", "S", "K", "M1", "M2", "u", "A00", "S_small"]
PER_TARGET = 3


def inputs(i, target):
    a = int.from_bytes(det_bytes("mine", f"a{target}{i}", 16), "big")
    b = int.from_bytes(det_bytes("mine", f"b{target}{i}", 32), "big")
    salt = det_bytes("mine", f"s{target}{i // 7}", 16)
    code = f"{(i * 37) % 1000:03d}-{(i * 11) % 100:02d}-{(i * 53) % 1000:03d}"
    return code, salt, a, b


def hit(target, code, salt, a, b):
    if target == "A":
        return G.pad(pow(G.g, a, G.N))[0] == 0
    if target == "A00":
        return G.pad(pow(G.g, a, G.N))[:2] == b"\0\0"
    ex = srp.Exchange(G, USER, code, salt, a, b)
    if target == "B":
        return ex.B_pad[0] == 0
    if target == "S":
        return G.pad(ex.S_client)[0] == 0
    if target == "S_small":
        return G.pad(ex.S_client)[:1] == b"\0" and False
    if target == "K":
        return ex.K_client[0] == 0
    if target == "M1":
        return ex.M1_client[0] == 0
    if target == "M2":
        return ex.M2_server[0] == 0
    if target == "u":
        return G.H(ex.A_pad, ex.B_pad)[0] == 0
    raise KeyError(target)


def scan(args):
    target, start, n = args
    out = []
    for i in range(start, start + n):
        c, s, a, b = inputs(i, target)
        if hit(target, c, s, a, b):
            out.append(i)
    return target, out


def main():
    targets = [t for t in TARGETS if t not in ("S_small",)]
    found = {t: [] for t in targets}
    with mp.Pool(16) as pool:
        start = 0
        while any(len(v) < PER_TARGET for t, v in found.items() if t != "A00") and start < 200000:
            jobs = [(t, start + k * 32, 32) for t in targets if len(found[t]) < PER_TARGET and t != "A00" for k in range(8)]
            for t, hits in pool.map(scan, jobs):
                found[t] += hits
            start += 256
            if all(len(found[t]) >= PER_TARGET for t in targets if t != "A00") and (len(found["A00"]) >= 1 or start > 140000):
                break
    with mp.Pool(16) as pool:
        start = 0
        while not found["A00"] and start < 2000000:
            for t, hits in pool.map(scan, [("A00", start + k * 2048, 2048) for k in range(16)]):
                found[t] += hits
            start += 16 * 2048
    corpus = []
    for t in targets:
        for i in sorted(found[t])[:PER_TARGET]:
            c, s, a, b = inputs(i, t)
            corpus.append({"target": t, "code": c, "salt": s.hex(), "a": hex(a), "b": hex(b)})
    path = os.path.join(os.path.dirname(__file__), "srp_corpus.json")
    with open(path, "w") as f:
        json.dump(corpus, f, indent=1)
    print({t: len(v) for t, v in found.items()}, "->", path)


def mine_code_targets():
    """Appends (idempotently) exchanges selected by properties of the *setup code* alone: the inner credentials hash H(I ':' P) starts
    with 0x00 ('HIP'), with two zero bytes ('HIP00'), or x = H(s | H(I ':' P)) starts with 0x00 ('x')."""
    path = os.path.join(os.path.dirname(__file__), "srp_corpus.json")
    with open(path) as f:
        corpus = json.load(f)
    corpus = [c for c in corpus if c["target"] not in ("HIP", "HIP00", "x")]
    want = {"HIP": 3, "HIP00": 1, "x": 2}
    n = 0
    for i in range(10**8):
        code = f"{i:08d}"
        code = f"{code[:3]}-{code[3:5]}-{code[5:]}"
        h = G.H(f"{USER}:{code}".encode())
        salt = det_bytes("mine", f"ship{i}", 16)
        t = None
        if h[:2] == b"\0\0" and want["HIP00"]:
            t = "HIP00"
        elif h[0] == 0 and want["HIP"]:
            t = "HIP"
        elif G.H(salt, h)[0] == 0 and want["x"]:
            t = "x"
        if t:
            want[t] -= 1
            a = int.from_bytes(det_bytes("mine", f"a{t}{i}", 16), "big")
            b = int.from_bytes(det_bytes("mine", f"b{t}{i}", 32), "big")
            corpus.append({"target": t, "code": code, "salt": salt.hex(), "a": hex(a), "b": hex(b)})
            n += 1
        if not any(want.values()):
            break
    with open(path, "w") as f:
        json.dump(corpus, f, indent=1)
    print("added", n, "code-selected exchanges")


if __name__ == "__main__":
    import sys

    if "--codes" in sys.argv:
        mine_code_targets()
    else:
        main()
        mine_code_targets()

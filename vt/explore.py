"""Exploration engines.

E2  seg_graph(): breadth-first search over (stream offset, canonical parser state).  A transition feeds the next k
    bytes for every k; every segmentation of the stream (any number of cuts) is a path in the graph.
E1  explore(): stateless depth-first search over environment-choice sequences of a harness running real code on a
    VirtualLoop, with depth / deviation bounds and optional state-hash pruning.
"""
from __future__ import annotations

from collections import deque

from vt import core


# ------------------------------------------------------------------------------------------------ E2
def seg_graph(make, feed, canon, observe, stream: bytes, max_nodes=200000, expect=None, max_bad=3):
    """make() -> fresh object; feed(obj, bytes) -> None or raises; canon(obj) -> hashable state; observe(obj) ->
    tuple of what has been delivered so far (part of the node identity and what the oracle reads).

    Returns dict(nodes, transitions, terminal=[observations at offset n], errors=[(path, exc)], all_obs=set)."""
    n = len(stream)

    def build(path):
        obj = make()
        pos = 0
        for k in path:
            feed(obj, stream[pos : pos + k])
            pos += k
        return obj

    start = make()
    k0 = (0, canon(start), observe(start))
    paths = {k0: ()}
    frontier = deque([k0])
    transitions = 0
    errors = []
    terminal = {}
    observations = {}
    bad = 0
    while frontier:
        key = frontier.popleft()
        off = key[0]
        path = paths[key]
        observations.setdefault(key[2], path)
        if expect is not None and (key[2] != expect[: len(key[2])] or (off == n and key[2] != expect)):
            bad += 1  # already a violation: the caller reports it; a broken parser can blow the graph up, so stop early
        if bad + len(errors) >= max_bad or (len(paths) >= max_nodes and expect is not None):
            if off == n:
                terminal.setdefault(key[2], path)
            break
        if off == n:
            terminal.setdefault(key[2], path)
            continue
        for k in range(1, n - off + 1):
            # a node is re-created by replaying its path on a fresh object: that replay must land in the very state the node stands for;
            # if it raises or lands elsewhere, a fresh instance does not behave like the earlier fresh instance did (state shared between
            # instances, or hidden nondeterminism) - reported, never trusted
            try:
                obj = build(path)
                rk = (off, canon(obj), observe(obj))
            except Exception as e:  # noqa: BLE001
                transitions += 1
                errors.append((path, f"a fresh instance fails on a prefix an earlier fresh instance accepted: {type(e).__name__}: {e}"))
                break
            if rk != key:
                transitions += 1
                errors.append((path, "a fresh instance fed an explored prefix ends in another state than the earlier fresh instance did (state shared between instances?)"))
                break
            try:
                feed(obj, stream[off : off + k])
            except Exception as e:  # noqa: BLE001
                transitions += 1
                errors.append((path + (k,), f"{type(e).__name__}: {e}"))
                continue
            transitions += 1
            nk = (off + k, canon(obj), observe(obj))
            if nk not in paths:
                if len(paths) >= max_nodes:
                    if expect is not None:
                        break
                    raise core.HarnessError("seg_graph: node cap hit")
                paths[nk] = path + (k,)
                frontier.append(nk)
    return dict(nodes=len(paths), transitions=transitions, terminal=terminal, errors=errors, observations=observations, capped=len(paths) >= max_nodes, stopped_early=bad > 0)


# ------------------------------------------------------------------------------------------------ E1
class Harness:
    """Interface a harness implements for explore().

    A fresh instance is built for every execution.  `menu()` returns the ordered list of labels of the choices
    enabled now (index 0 = default); `take(i)` performs choice i; `violations()` returns [(signature, detail)] found
    so far (invariants are checked by the harness after every step); `canon()` a hashable canonical state;
    `finish()` runs the execution to its horizon along defaults and returns end-of-execution violations;
    `close()` releases the loop."""

    def menu(self):
        raise NotImplementedError

    def take(self, i):
        raise NotImplementedError

    def canon(self):
        return None

    def violations(self):
        return []

    def finish(self):
        return []

    def close(self):
        pass

    def is_deviation(self, i, label):
        return i != 0


class ReplayMismatch(core.HarnessError):
    pass


def run_prefix(factory, prefix, labels=None):
    """Build a fresh harness and replay a choice prefix.  labels (optional): expected label per step -> hard error on mismatch."""
    h = factory()
    trace = []
    try:
        for step, c in enumerate(prefix):
            m = h.menu()
            if c >= len(m):
                raise ReplayMismatch(f"replay step {step}: choice {c} out of range {m} (prefix {prefix})")
            if labels is not None and labels[step] != m[c]:
                raise ReplayMismatch(f"replay step {step}: label {m[c]!r} != recorded {labels[step]!r}")
            trace.append(m[c])
            h.take(c)
    except BaseException:
        h.close()
        raise
    return h, trace


def _all_known(v, known):
    import fnmatch

    return bool(known) and all(any(fnmatch.fnmatchcase(sig, k) for k in known) for sig, _ in v)


def explore(factory, acc: core.Acc, *, depth, case, params, max_dev=None, prune=True, finish=True, max_exec=None, seen=None, root=(), known=()):
    """Depth-bounded DFS from `root` (a choice prefix).  Every maximal path is an *execution*; at its end `finish()` runs.
    max_dev: bound on the number of deviations (non-default choices as judged by harness.is_deviation) per execution.
    prune: do not expand a canonical state again at an equal or greater depth / deviation count."""
    seen = {} if seen is None else seen
    stack = [(tuple(root), None)]
    n_exec = 0
    while stack:
        prefix, labels = stack.pop()
        h, trace = run_prefix(factory, prefix)
        try:
            v = h.violations()
            devs = getattr(h, "deviations", 0)
            if v:
                for sig, detail in v:
                    acc.violation(sig, case, dict(params, choices=list(prefix)), dict(detail=detail, trace=trace))
                acc.case(key=(repr(sorted(params.items())), prefix), outcome="violation-midway")
                n_exec += 1
                if not _all_known(v, known):
                    continue
                # only recorded known findings showed up: keep exploring below this state so that they do not mask anything else
            expand = getattr(h, "depth_used", len(prefix)) < depth
            menu = h.menu() if expand else []
            if expand and prune:
                key = h.canon()
                if key is not None:
                    k = core.h64(key)
                    best = seen.get(k)
                    cur = (getattr(h, "depth_used", len(prefix)), devs)
                    if best is not None and best[0] <= cur[0] and best[1] <= cur[1]:
                        acc.extra["pruned"] += 1
                        continue
                    seen[k] = cur
                    acc.state_keys.add(k)
            if not expand or not menu:
                # end of execution
                n_exec += 1
                fv = h.finish() if finish else []
                for sig, detail in fv:
                    acc.violation(sig, case, dict(params, choices=list(prefix)), dict(detail=detail, trace=trace))
                acc.case(key=(repr(sorted(params.items())), prefix), outcome=getattr(h, "outcome", lambda: "done")() if not fv else fv[0][0], sample={"choices": list(prefix), "trace": trace} if n_exec <= 2 else None)
                acc.traces += 1
                continue
            for i in reversed(range(len(menu))):
                if max_dev is not None and h.is_deviation(i, menu[i]) and devs >= max_dev:
                    continue
                acc.transitions += 1
                acc.symbols[menu[i].split(":")[0]] += 1
                stack.append((prefix + (i,), None))
        finally:
            h.close()
        if max_exec is not None and n_exec >= max_exec:
            acc.capped.append(f"max_exec={max_exec} reached at root {list(root)}")
            break
    return n_exec


def roots(factory, r):
    """All choice prefixes of length <= r that are maximal (length r or dead end): work units for parallel exploration."""
    out = []
    stack = [()]
    while stack:
        prefix = stack.pop()
        h, _ = run_prefix(factory, prefix)
        try:
            menu = [] if h.violations() else h.menu()
        finally:
            h.close()
        if len(prefix) >= r or not menu:
            out.append(prefix)
            continue
        for i in reversed(range(len(menu))):
            stack.append(prefix + (i,))
    return out


def run_default(factory, prefix, acc=None, count_states=True):
    """Replay `prefix`, then continue on defaults (choice 0) until the menu is empty or a violation shows.
    -> (harness (still open), menus, trace, violations_midway)"""
    h = factory()
    menus, trace = [], []
    try:
        step = 0
        while True:
            m = h.menu()
            if not m:
                break
            c = prefix[step] if step < len(prefix) else 0
            if c >= len(m):
                raise ReplayMismatch(f"replay step {step}: choice {c} out of range {m} (prefix {list(prefix)})")
            menus.append(m)
            trace.append(m[c])
            h.take(c)
            step += 1
            if acc is not None:
                acc.transitions += 1
                acc.symbols[m[c].split("|")[0].split(":")[0]] += 1
                if count_states:
                    k = h.canon()
                    if k is not None:
                        acc.state_keys.add(core.h64(k))
            v = h.violations()
            if v:
                return h, menus, trace, v
        if step < len(prefix):
            raise ReplayMismatch(f"prefix {list(prefix)} longer than the execution ({step} steps)")
        return h, menus, trace, []
    except BaseException:
        h.close()
        raise


def explore_dev(factory, acc: core.Acc, *, max_dev, case, params, root=(), max_exec=None):
    """Deviation-bounded stateless DFS (iterative context bounding transplanted to environment choices): every execution
    runs to its horizon along defaults; every choice point after the prefix may deviate; all executions with at most
    `max_dev` non-default choices below `root` are explored, each exactly once."""
    stack = [tuple(root)]
    n = 0
    while stack:
        prefix = stack.pop()
        h, menus, trace, v = run_default(factory, prefix, acc)
        try:
            if not v:
                v = h.finish()
            outcome = getattr(h, "outcome", lambda: "done")()
        finally:
            h.close()
        n += 1
        choices = list(prefix) + [0] * (len(menus) - len(prefix))
        for sig, detail in v:
            acc.violation(sig, case, dict(params, choices=choices[: len(trace)]), dict(detail=detail, trace=trace))
        acc.case(key=(repr(sorted(params.items())), tuple(choices)), outcome=outcome if not v else v[0][0], sample={"choices": choices, "trace": trace} if n <= 1 else None)
        acc.traces += 1
        devs = 0
        for i in range(len(menus)):
            if i >= len(prefix) and devs < max_dev:
                for alt in range(1, len(menus[i])):
                    stack.append(tuple(choices[:i]) + (alt,))
            if choices[i] != 0:
                devs += 1
        if max_exec is not None and n >= max_exec:
            acc.capped.append(f"max_exec={max_exec} reached below root {list(root)}")
            break
    return n

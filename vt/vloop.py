"""E1 environment model: a hand-stepped virtual-time asyncio loop, an in-memory socket transport that follows the
selector transport's contract, and a simulated network.  Bound to reality by vt/selftests/t_envconf.py, which runs
the same scenarios on a stock loop over a socketpair and compares protocol-callback traces."""
from __future__ import annotations

import asyncio
import threading
from asyncio import events


class _NullSelector:
    def select(self, timeout=None):
        return []

    def close(self):
        pass


class VirtualLoop(asyncio.BaseEventLoop):
    """Runs stock Task/Future/timeout machinery; time only moves when the harness says so.

    One `run_batch()` is exactly one iteration of BaseEventLoop._run_once(): due timers are moved to the ready
    queue and the handles that were ready at the start of the iteration are run.  That is the finest grain at
    which real asyncio can interleave an I/O completion, so harness choice points sit between batches."""

    def __init__(self):
        super().__init__()
        self._vtime = 0.0
        self._clock_resolution = 1e-9
        self._selector = _NullSelector()
        self.unhandled = []
        self.set_exception_handler(lambda loop, ctx: self.unhandled.append(ctx))
        self.net = None
        self._installed = False

    # --- BaseEventLoop plumbing
    def time(self):
        return self._vtime

    def _process_events(self, event_list):
        pass

    def _write_to_self(self):
        pass

    def install(self):
        self._prev = events._get_running_loop()
        events._set_running_loop(self)
        self._thread_id = threading.get_ident()
        self._installed = True
        return self

    def uninstall(self):
        if self._installed:
            events._set_running_loop(self._prev)
            self._thread_id = None
            self._installed = False

    # --- stepping
    def _drop_cancelled_head(self):
        import heapq

        while self._scheduled and self._scheduled[0]._cancelled:
            self._timer_cancelled_count -= 1
            h = heapq.heappop(self._scheduled)
            h._scheduled = False

    def has_ready(self):
        self._drop_cancelled_head()
        if any(not h._cancelled for h in self._ready):
            return True
        return bool(self._scheduled) and self._scheduled[0]._when < self._vtime + self._clock_resolution

    def run_batch(self):
        self._run_once()

    def run_until_idle(self, max_batches=100000):
        n = 0
        while self.has_ready():
            self._run_once()
            n += 1
            if n > max_batches:
                raise RuntimeError("virtual loop does not go idle (livelock?)")
        return n

    def next_timer(self):
        self._drop_cancelled_head()
        live = [h._when for h in self._scheduled if not h._cancelled]
        return min(live) if live else None

    def fire_next_timer(self):
        """Advance virtual time to the earliest pending timer (it becomes ready; run_batch runs it)."""
        t = self.next_timer()
        if t is None:
            return False
        if t > self._vtime:
            self._vtime = t
        return True

    def advance(self, dt):
        """Advance time by dt, firing every timer that falls due on the way, in order; run to idle at each."""
        end = self._vtime + dt
        self.run_until_idle()
        while True:
            t = self.next_timer()
            if t is None or t > end:
                break
            self._vtime = max(self._vtime, t)
            self.run_until_idle()
        self._vtime = end
        self.run_until_idle()

    def run_coro(self, coro, horizon=3600.0):
        """Run to completion along defaults (fire timers in order when idle)."""
        task = self.create_task(coro)
        end = self._vtime + horizon
        while not task.done():
            self.run_until_idle()
            if task.done():
                break
            t = self.next_timer()
            if t is None or t > end:
                raise RuntimeError("coroutine blocked forever on the virtual loop")
            self._vtime = max(self._vtime, t)
        return task.result()

    def shutdown(self):
        """Cancel leftover tasks, drain, close."""
        try:
            for _ in range(5):
                tasks = [t for t in asyncio.all_tasks(self) if not t.done()]
                if not tasks:
                    break
                for t in tasks:
                    t.cancel()
                self.run_until_idle()
            for t in asyncio.all_tasks(self):
                if t.done() and not t.cancelled():
                    t.exception()
        except Exception:  # noqa: BLE001
            pass
        self.uninstall()
        self._ready.clear()
        self._scheduled.clear()
        if not self.is_closed():
            self.close()

    # --- network
    async def create_connection(self, protocol_factory, host=None, port=None, *, sock=None, **kw):
        if sock is None or not isinstance(sock, FakeSocket):
            raise RuntimeError("VirtualLoop.create_connection needs a FakeSocket from the simulated network")
        protocol = protocol_factory()
        waiter = self.create_future()
        transport = MemTransport(self, protocol, sock, waiter)
        try:
            await waiter
        except BaseException:
            transport.close()
            raise
        return transport, protocol


class FakeSocket:
    def __init__(self, net, host, port, conn):
        self.net, self.host, self.port, self.conn = net, host, port, conn
        self.opts = []

    def getpeername(self):
        if ":" not in self.host:
            return (self.host, self.port)
        # what the kernel + getnameinfo(NI_NUMERICHOST) report: the compressed canonical text, with the zone kept for a scoped address
        import ipaddress

        base, _, zone = self.host.partition("%")
        try:
            base = str(ipaddress.ip_address(base))
        except ValueError:
            pass
        return (base + ("%" + zone if zone else ""), self.port, 0, 2 if zone else 0)

    def setsockopt(self, *a):
        self.opts.append(a)

    def close(self):
        self.conn.client_closed("sock.close")

    def fileno(self):
        return -1


class MemTransport(asyncio.Transport):
    """Client end of a simulated TCP connection; mirrors _SelectorSocketTransport semantics the code relies on."""

    def __init__(self, loop, protocol, sock: FakeSocket, waiter=None):
        super().__init__({"peername": sock.getpeername(), "socket": sock})
        self._loop, self._protocol, self._sock = loop, protocol, sock
        self.conn = sock.conn
        self.conn.transport = self
        self._closing = False
        self._conn_lost = 0
        self._eof = False
        self._protocol_connected = False
        self._lost_called = False
        self.calls = []  # ('write'|'writelines', bytes) per transport call
        loop.call_soon(self._connection_made)
        if waiter is not None:
            loop.call_soon(asyncio.futures._set_result_unless_cancelled, waiter, None)

    def _connection_made(self):
        self._protocol_connected = True
        self._protocol.connection_made(self)

    # -- Transport API
    def set_protocol(self, protocol):
        self._protocol = protocol

    def get_protocol(self):
        return self._protocol

    def is_closing(self):
        return self._closing

    def is_reading(self):
        return not self._closing

    def write(self, data):
        if not isinstance(data, (bytes, bytearray, memoryview)):
            raise TypeError("data argument must be a bytes-like object")
        if self._eof:
            raise RuntimeError("Cannot call write() after write_eof()")
        if not data:
            return
        if self._conn_lost:
            self._conn_lost += 1
            return
        data = bytes(data)
        self.calls.append(("write", data))
        self.conn.client_wrote(data)

    def writelines(self, list_of_data):
        if self._eof:
            raise RuntimeError("Cannot call writelines() after write_eof()")
        list_of_data = list(list_of_data)
        if not list_of_data:
            return
        if self._closing and writelines_after_close() == "TypeError":
            # CPython 3.12.0/3.12.1: close() sets _write_ready = None and writelines() calls it
            raise TypeError("'NoneType' object is not callable")
        if self._conn_lost:
            return
        data = b"".join(bytes(d) for d in list_of_data)
        self.calls.append(("writelines", data))
        self.conn.client_wrote(data)

    def can_write_eof(self):
        return True

    def write_eof(self):
        if self._closing or self._eof:
            return
        self._eof = True
        if getattr(self, "_rst_pending", False):
            # the peer's RST has reached the kernel but the loop has not looked at the socket yet: shutdown(SHUT_WR) fails
            # (grounded against a real socket in selftests/t_envconf.py)
            import errno

            raise OSError(errno.ENOTCONN, "Transport endpoint is not connected")
        self.conn.client_eof()

    def close(self):
        if self._closing:
            return
        self._closing = True
        self._conn_lost += 1
        self.conn.client_closing = True
        if getattr(self.conn, "slow_close", False):
            # a real transport with unsent data in its write buffer reports connection_lost only once the buffer has drained (or the
            # peer went away): the harness decides when (complete_close)
            self._lost_pending = True
            return
        self._loop.call_soon(self._call_connection_lost, None)

    def complete_close(self):
        if getattr(self, "_lost_pending", False):
            self._lost_pending = False
            self._loop.call_soon(self._call_connection_lost, None)
            return True
        return False

    def abort(self):
        self._force_close(None)

    def _force_close(self, exc):
        if getattr(self, "_lost_pending", False):
            self._lost_pending = False
            self._loop.call_soon(self._call_connection_lost, exc)
            return
        if self._conn_lost:
            return
        if not self._closing:
            self._closing = True
        self._conn_lost += 1
        self._loop.call_soon(self._call_connection_lost, exc)

    def _fatal_error(self, exc, message="Fatal error on transport"):
        if not isinstance(exc, OSError):
            self._loop.call_exception_handler({"message": message, "exception": exc, "transport": self, "protocol": self._protocol})
        self._force_close(exc)

    def _call_connection_lost(self, exc):
        try:
            if self._protocol_connected and not self._lost_called:
                self._lost_called = True
                self._protocol.connection_lost(exc)
        finally:
            self.conn.client_closed("close")

    # -- driven by the simulated peer (each is what the reader callback would do)
    def feed_data(self, data: bytes):
        if self._conn_lost or self._closing:
            return False
        try:
            self._protocol.data_received(data)
        except (SystemExit, KeyboardInterrupt):
            raise
        except BaseException as exc:  # noqa: BLE001
            self._fatal_error(exc, "Fatal error: protocol.data_received() call failed.")
        return True

    def feed_eof(self):
        if self._conn_lost or self._closing:
            return False
        try:
            keep_open = self._protocol.eof_received()
        except (SystemExit, KeyboardInterrupt):
            raise
        except BaseException as exc:  # noqa: BLE001
            self._fatal_error(exc, "Fatal error: protocol.eof_received() call failed.")
            return True
        if not keep_open:
            self.close()
        return True

    def feed_reset(self):
        if self._conn_lost:
            return False
        self._fatal_error(ConnectionResetError(104, "Connection reset by peer"))
        return True


_WAC = None


def writelines_after_close():
    """What the running interpreter's selector transport does on writelines() after close(): probed once on a
    stock loop over a socketpair so that the model follows the real runtime ('drop' or 'TypeError')."""
    global _WAC
    if _WAC is None:
        import socket

        async def probe():
            a, b = socket.socketpair()
            a.setblocking(False)
            tr, _ = await asyncio.get_running_loop().create_connection(asyncio.Protocol, sock=a)
            tr.close()
            try:
                tr.writelines([b"x"])
                res = "drop"
            except TypeError:
                res = "TypeError"
            await asyncio.sleep(0)
            b.close()
            return res

        prev = events._get_running_loop()
        events._set_running_loop(None)
        lp = asyncio.new_event_loop()
        try:
            _WAC = lp.run_until_complete(probe())
        finally:
            lp.close()
            events._set_running_loop(prev)
    return _WAC


class Conn:
    """One simulated TCP connection as the accessory side sees it."""

    def __init__(self, net, cid, host, port):
        self.net, self.cid, self.host, self.port = net, cid, host, port
        self.transport: MemTransport | None = None
        self.rx = []  # list of bytes, one entry per client transport call
        self.client_open = True  # controller has not closed its end
        self.client_closing = False  # controller called close(); completion may be pending (slow_close)
        self.slow_close = False
        self.client_sent_eof = False
        self.peer_open = True  # accessory has not closed its end
        self.handler = None  # optional callable(conn, data) invoked on every client write
        self.opened_at = net.loop.time()
        self.closed_at = None

    @property
    def open(self):
        """Neither side has closed: this is what counts as an open (leaked) connection."""
        return self.client_open and self.peer_open and not self.client_closing

    def client_wrote(self, data):
        self.rx.append(data)
        self.net.log.append(("tx", self.cid, len(data)))
        if self.handler:
            self.handler(self, data)

    def client_eof(self):
        self.client_sent_eof = True

    def client_closed(self, why):
        if self.client_open:
            self.client_open = False
            self.closed_at = self.net.loop.time()
            self.net.log.append(("client-close", self.cid, self.net.loop.time()))

    # accessory -> controller
    def send(self, data: bytes):
        """Deliver bytes to the client.  net.delivery chooses how one delivery is cut into reads (a harness-wide environment dimension; every
        oracle must be indifferent to it): None = one read; 'bytes' = one read per byte; '3/4' = a read ending three quarters into the data
        (with two encrypted blocks per message: a whole block and the beginning of the next), then the rest; 'head1' = the first byte alone."""
        mode = getattr(self.net, "delivery", None)
        if not self.transport:
            return False
        if not mode or len(data) < 2:
            return bool(self.transport.feed_data(data))
        if mode == "bytes":
            pieces = [data[i : i + 1] for i in range(len(data))]
        elif mode == "3/4":
            h = max(1, (len(data) * 3) // 4)
            pieces = [data[:h], data[h:]]
        elif mode == "head1":
            pieces = [data[:1], data[1:]]
        else:
            raise ValueError(mode)
        ok = False
        for p_ in pieces:
            if not self.transport:
                break
            ok = bool(self.transport.feed_data(p_)) or ok
        return ok

    def peer_close(self):
        self.peer_open = False
        self.net.log.append(("peer-close", self.cid, self.net.loop.time()))
        return bool(self.transport and self.transport.feed_eof())

    def peer_reset_arrives(self):
        """The peer's RST is in the kernel; the loop processes it (peer_reset) at its next poll.  Until then write_eof() fails."""
        self.rst_pending = True  # (peer_open stays True until the loop has seen the reset: oracles speak about what the loop was told)
        if self.transport is not None:
            self.transport._rst_pending = True

    def peer_reset(self):
        self.peer_open = False
        self.net.log.append(("peer-reset", self.cid, self.net.loop.time()))
        return bool(self.transport and self.transport.feed_reset())


class SimNet:
    """Simulated network: replaces aiohappyeyeballs.start_connection.  Each call becomes a pending *attempt* whose
    outcome (connect to host i / refuse / never answer) is decided by the harness."""

    def __init__(self, loop: VirtualLoop):
        self.loop = loop
        loop.net = self
        self.log = []
        self.attempts = []  # dicts: t, hosts, fut, outcome
        self.conns: list[Conn] = []
        self.auto = None  # optional callable(attempt) -> ('ok', host) | ('refuse',) | ('hang',) deciding immediately

    async def start_connection(self, addr_infos, *, happy_eyeballs_delay=None, interleave=None, loop=None, **kw):
        hosts = [ai[3] for ai in addr_infos]
        port = addr_infos[0][4][1]
        att = {"t": self.loop.time(), "hosts": hosts, "port": port, "fut": self.loop.create_future(), "outcome": None, "end": None, "task": id(asyncio.current_task())}  # (which task asked: attempts of one connector run share it)
        self.attempts.append(att)
        self.log.append(("attempt", self.loop.time(), tuple(hosts)))
        if self.auto is not None:
            # a real connect always yields to the loop at least once
            self.loop.call_soon(self._auto_decide, att)
        try:
            return await att["fut"]
        finally:
            att["end"] = self.loop.time()
            if att["outcome"] is None:
                att["outcome"] = "cancelled"

    def _auto_decide(self, att):
        if att["fut"].done():
            return
        d = self.auto(att)
        if d[0] == "ok":
            self.accept(att, d[1])
        elif d[0] == "refuse":
            self.refuse(att)

    def pending(self):
        return [a for a in self.attempts if not a["fut"].done()]

    def accept(self, att, host=None):
        host = host or att["hosts"][0]
        conn = Conn(self, len(self.conns), host, att["port"])
        self.conns.append(conn)
        att["outcome"] = ("ok", host, conn.cid)
        att["fut"].set_result(FakeSocket(self, host, att["port"], conn))
        return conn

    def refuse(self, att):
        att["outcome"] = ("refused",)
        att["fut"].set_exception(ConnectionRefusedError(111, "Connect call failed"))

    def open_conns(self):
        return [c for c in self.conns if c.open]


class patched_network:
    """Context manager: route aiohomekit's IP connects through a SimNet."""

    def __init__(self, net: SimNet):
        self.net = net

    def __enter__(self):
        import aiohappyeyeballs

        self._orig = aiohappyeyeballs.start_connection
        aiohappyeyeballs.start_connection = self.net.start_connection
        return self.net

    def __exit__(self, *a):
        import aiohappyeyeballs

        aiohappyeyeballs.start_connection = self._orig

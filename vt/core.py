"""Core of the verification runner: accumulation of coverage, violations, known findings, evidence, parallel map.

A *check* (vt/props/cNN.py) exposes
    META   : dict(level=..., technique=..., text=..., note=..., design_ref=...)
    run(ctx): enumerates its space, calling ctx.pmap / ctx.acc directly
    CASES  : dict name -> function(params) -> list[(signature, detail)]   (used for replay)

A *violation* is (signature, case, params, detail).  `signature` names the failing class of input / call
site / history; it is what known_findings.json matches on.  `case`+`params` re-run that single execution.
"""
from __future__ import annotations

import fnmatch
import hashlib
import json
import multiprocessing as mp
import os
import sys
import time
import traceback
from collections import Counter

ROOT = os.path.dirname(os.path.dirname(os.path.abspath(__file__)))
# runs against a scratch copy of the repository (VERIF_REPO) must not overwrite the evidence of the real tree
OUT = os.environ.get("VERIF_OUT_DIR") or (ROOT if os.environ.get("VERIF_REPO", "/repo") == "/repo" else "/tmp/verif-scratch-out")
WORKERS = int(os.environ.get("VERIF_WORKERS", "16"))
MAX_VIOL_PER_SIG = 5


class HarnessError(Exception):
    """The machinery (not the code under test) is at fault: exit 2, never a VIOLATION."""


def h64(obj) -> int:
    if not isinstance(obj, (bytes, bytearray)):
        obj = repr(obj).encode()
    return int.from_bytes(hashlib.blake2b(obj, digest_size=8).digest(), "big")


def jsonable(x):
    if isinstance(x, (bytes, bytearray)):
        return {"hex": bytes(x).hex()}
    if isinstance(x, dict):
        return {str(k): jsonable(v) for k, v in x.items()}
    if isinstance(x, (list, tuple, set, frozenset)):
        return [jsonable(v) for v in x]
    if isinstance(x, (str, int, float, bool)) or x is None:
        return x
    return repr(x)


def unjson(x):
    if isinstance(x, dict):
        if set(x.keys()) == {"hex"}:
            return bytes.fromhex(x["hex"])
        return {k: unjson(v) for k, v in x.items()}
    if isinstance(x, list):
        return [unjson(v) for v in x]
    return x


class Acc:
    """Accumulator; created in workers, merged in the parent."""

    def __init__(self):
        self.n = 0
        self.keys = set()
        self.outcomes = Counter()
        self.symbols = Counter()
        self.viol = []
        self.viol_count = Counter()
        self.states = 0
        self.transitions = 0
        self.state_keys = set()
        self.traces = 0
        self.samples = []
        self.extra = Counter()
        self.capped = []

    def case(self, key=None, outcome=None, nontrivial=True, sample=None, symbols=()):
        self.n += 1
        if nontrivial and key is not None:
            self.keys.add(key if isinstance(key, int) else h64(key))
        if outcome is not None:
            self.outcomes[outcome] += 1
        for s in symbols:
            self.symbols[s] += 1
        if sample is not None and len(self.samples) < 3:
            self.samples.append(jsonable(sample))

    def violation(self, signature, case, params, detail):
        self.viol_count[signature] += 1
        if self.viol_count[signature] <= MAX_VIOL_PER_SIG:
            self.viol.append(
                {"signature": signature, "case": case, "params": jsonable(params), "detail": jsonable(detail)}
            )

    def merge(self, o: "Acc"):
        self.n += o.n
        self.keys |= o.keys
        self.outcomes.update(o.outcomes)
        self.symbols.update(o.symbols)
        for v in o.viol:
            if sum(1 for w in self.viol if w["signature"] == v["signature"]) < MAX_VIOL_PER_SIG:
                self.viol.append(v)
        self.viol_count.update(o.viol_count)
        self.states += o.states
        self.transitions += o.transitions
        self.state_keys |= o.state_keys
        self.traces += o.traces
        for s in o.samples:
            if len(self.samples) < 6:
                self.samples.append(s)
        self.extra.update(o.extra)
        self.capped += o.capped


class _ItemTimeout(BaseException):
    pass


ITEM_TIMEOUT = {"quick": float(os.environ.get("VERIF_ITEM_TIMEOUT_QUICK", "420")), "thorough": float(os.environ.get("VERIF_ITEM_TIMEOUT_THOROUGH", "2400"))}


def _worker_entry(args):
    """Runs one work item under a watchdog: code under test that never returns (a livelock in a parser, a connector spinning at one
    virtual instant, a state space blown up by a defect) is reported as a violation instead of hanging the check."""
    import signal

    func, item, seed, tier = args[:4]
    debug = len(args) > 4 and args[4]

    def on_alarm(signum, frame):
        raise _ItemTimeout()

    old = None
    try:
        # the budget is CPU time of this worker (a livelock burns CPU; a machine that is merely busy with other work does not), with a
        # generous wall-clock backstop for code that blocks without computing
        old = signal.signal(signal.SIGALRM, on_alarm)
        signal.signal(signal.SIGPROF, on_alarm)
        signal.setitimer(signal.ITIMER_PROF, ITEM_TIMEOUT.get(tier, 420))
        signal.setitimer(signal.ITIMER_REAL, 8 * ITEM_TIMEOUT.get(tier, 420))
    except (ValueError, AttributeError):
        old = None
    try:
        if debug:
            with loggers_at_debug():
                acc = func(item, seed, tier)
            return _tag_debug(acc)
        return func(item, seed, tier)
    except _ItemTimeout:
        acc = Acc()
        acc.case(key=("timeout", repr(item)[:200]), outcome="work-item-does-not-terminate")
        acc.violation("work-item-does-not-terminate", "timeout", {"item": repr(item)[:400]}, {"timeout_s": ITEM_TIMEOUT.get(tier), "note": "one unit of exploration that normally takes seconds did not finish: livelock in the code under test or a state space blown up by a defect"})
        return acc
    except BaseException as e:  # noqa: BLE001
        if type(e).__name__ == "ReplayMismatch":
            # a prefix that an earlier execution took cannot be taken again by fresh objects in the same process: behaviour depends on what
            # earlier instances did (state shared between instances) or on something the harness does not own.  Reported, never trusted.
            acc = Acc()
            acc.case(key=("replay-mismatch", repr(item)[:200]), outcome="execution-not-reproducible-on-fresh-instances")
            acc.violation("execution-not-reproducible-on-fresh-instances", "replay-mismatch", {"item": repr(item)[:400]}, {"what": str(e)[:400], "note": "fresh objects replaying an explored prefix met a different menu: state shared between instances, or nondeterminism outside the harness"})
            return acc
        if not isinstance(e, (HarnessError, KeyboardInterrupt, SystemExit, MemoryError)):
            # an exception that starts inside the library and that no harness anticipated (on the unchanged tree this never happens: it would be
            # a harness error there): the scenario did not run the way the property needs it to
            tb = e.__traceback__
            last = None
            while tb is not None:
                last = tb.tb_frame.f_code.co_filename
                tb = tb.tb_next
            import aiohomekit

            if last and last.startswith(os.path.dirname(os.path.abspath(aiohomekit.__file__)) + os.sep):
                acc = Acc()
                acc.case(key=("library-exception", repr(item)[:200]), outcome=f"unanticipated-exception-from-the-library:{type(e).__name__}")
                acc.violation(f"unanticipated-exception-from-the-library:{type(e).__name__}", "library-exception", {"item": repr(item)[:400]},
                              {"error": f"{type(e).__name__}: {e}"[:300], "raised_in": last.replace(os.path.dirname(os.path.dirname(os.path.abspath(aiohomekit.__file__))), "<repo>"), "traceback_tail": traceback.format_exc()[-1200:]})
                return acc
        return ("__harness_error__", traceback.format_exc(), repr(item)[:500])
    finally:
        if old is not None:
            signal.setitimer(signal.ITIMER_REAL, 0)
            signal.setitimer(signal.ITIMER_PROF, 0)
            signal.signal(signal.SIGALRM, old)


class loggers_at_debug:
    """The library's loggers at DEBUG (output discarded): how the repository's own tests, and anyone chasing a problem, run it.  Code that
    builds a debug dump only runs then; no result may depend on it."""

    def __enter__(self):
        import logging

        lg = logging.getLogger("aiohomekit")
        self.saved = (lg, lg.level, lg.propagate, list(lg.handlers), logging.root.manager.disable)
        logging.disable(logging.NOTSET)
        lg.setLevel(logging.DEBUG)
        lg.propagate = False
        lg.handlers = [logging.NullHandler()]
        return self

    def __exit__(self, *exc):
        import logging

        lg, level, prop, handlers, disabled = self.saved
        lg.setLevel(level)
        lg.propagate = prop
        lg.handlers = handlers
        logging.disable(disabled)
        return False


def _tag_debug(acc):
    """Results of the pass with the loggers at DEBUG: separate evaluations, signatures tagged, replay told to switch the loggers on."""
    if not isinstance(acc, Acc):
        return acc
    acc.keys = {h64(("loggers-at-debug", k)) for k in acc.keys}
    acc.state_keys = {h64(("loggers-at-debug", k)) for k in acc.state_keys}
    for v in acc.viol:
        v["signature"] += ":loggers-at-debug"
        if isinstance(v.get("params"), dict):
            v["params"]["_loglevel"] = "debug"
    acc.viol_count = Counter({k + ":loggers-at-debug": n for k, n in acc.viol_count.items()})
    acc.symbols = Counter({"loggers-at-debug:" + k: n for k, n in acc.symbols.items()})  # vacuity guards count the plain pass only
    acc.extra["evaluations_with_loggers_at_debug"] += acc.n
    return acc


_POOL = None


def pool():
    global _POOL
    if _POOL is None:
        _POOL = mp.get_context("fork").Pool(WORKERS)
    return _POOL


class Ctx:
    def __init__(self, prop: str, tier: str, seed: int, meta: dict):
        self.prop = prop
        self.tier = tier
        self.seed = seed
        self.meta = meta
        self.acc = Acc()
        self.t0 = time.time()
        self.notes = []
        self.bounds = {}
        self.assumptions = list(meta.get("assumptions", []))
        self.exhaustive = None

    # ---- running work
    def pmap(self, func, items, parallel=True):
        """func(item, seed, tier) -> Acc, module-level function.  Results merged into ctx.acc."""
        items = list(items)
        if not items:
            return
        jobs = [(func, it, self.seed, self.tier) for it in items]
        dp = os.environ.get("VERIF_DEBUG_PASS") or self.meta.get("debug_pass", "quick")  # 'quick' (both tiers) | 'thorough' | 'none' 
        if dp == "quick" or dp == "1" or (dp == "thorough" and self.tier == "thorough"):
            # the same work once more with the library's loggers at DEBUG (an environment dimension no result may depend on)
            jobs += [(func, it, self.seed, self.tier, True) for it in items]
            self.bounds["loggers"] = "every work item is run twice: loggers silenced, and the library's loggers at DEBUG (signatures of the second pass end in :loggers-at-debug)"
        if not parallel or WORKERS <= 1 or len(jobs) == 1:
            results = (_worker_entry(j) for j in jobs)
        else:
            results = pool().imap_unordered(_worker_entry, jobs, chunksize=1)
        for r in results:
            if isinstance(r, tuple) and r and r[0] == "__harness_error__":
                raise HarnessError(f"worker failed on {r[2]}:\n{r[1]}")
            self.acc.merge(r)

    def note(self, s):
        self.notes.append(s)

    def require(self, cond, msg):
        """Vacuity / sanity guard: failing it is a harness error, not a pass and not a violation."""
        if not cond:
            if self.acc.viol_count:
                # exploration stopped early because violations were found: report those, not the guard
                self.notes.append(f"guard not met (violations found first): {msg}")
                return
            raise HarnessError(f"{self.prop}: guard failed: {msg}")


def load_known():
    p = os.path.join(ROOT, "known_findings.json")
    if not os.path.exists(p):
        return []
    with open(p) as f:
        return json.load(f)["findings"]


def finish(ctx: Ctx) -> int:
    acc = ctx.acc
    known = [k for k in load_known() if k["property"] == ctx.prop and k["status"] == "known"]
    unknown = []
    known_hit = {}
    for v in acc.viol:
        plain = v["signature"][: -len(":loggers-at-debug")] if v["signature"].endswith(":loggers-at-debug") else v["signature"]
        k = next((k for k in known if fnmatch.fnmatchcase(plain, k["signature"])), None)
        if k is not None:
            known_hit.setdefault(k["signature"], (k, 0))
            known_hit[k["signature"]] = (k, known_hit[k["signature"]][1] + 1)
        else:
            unknown.append(v)
    for sig, (k, _) in sorted(known_hit.items()):
        print(f"KNOWN-FINDING: property={ctx.prop} {k['signature']}: {k['what']}")
    os.makedirs(os.path.join(OUT, "replays"), exist_ok=True)
    reported = set()
    for v in unknown:
        if v["signature"] in reported:
            continue
        reported.add(v["signature"])
        rid = hashlib.blake2b(json.dumps(v, sort_keys=True).encode(), digest_size=6).hexdigest()
        path = os.path.join(OUT, "replays", f"{ctx.prop}-{rid}.json")
        with open(path, "w") as f:
            json.dump({"property": ctx.prop, **v}, f, indent=1, sort_keys=True)
        print(f"VIOLATION property={ctx.prop} replay={path}")
        print(f"  signature: {v['signature']}")
        print(f"  detail: {json.dumps(v['detail'])[:1500]}")
    write_evidence(ctx, n_viol=len(unknown), known_hit=known_hit)
    return 1 if unknown else 0


def write_evidence(ctx: Ctx, n_viol: int, known_hit: dict):
    acc = ctx.acc
    level = ctx.meta["level"]
    cov = {
        "evaluations": acc.n,
        "distinct_nontrivial": len(acc.keys),
        "rule": ctx.meta.get("rule", ""),
        "samples": acc.samples[:6] or [],
        "outcomes": dict(acc.outcomes.most_common(40)),
        "distinct_outcomes": len(acc.outcomes),
        "symbol_hits": dict(sorted(acc.symbols.items())),
        "bounds": ctx.bounds,
        "exhaustive": bool(ctx.exhaustive) if ctx.exhaustive is not None else False,
        "caps_hit": acc.capped,
        "violation_signatures": dict(acc.viol_count),
        "known_findings_reproduced": sorted(known_hit.keys()),
        "notes": ctx.notes,
    }
    if acc.extra:
        cov["extra_counts"] = dict(acc.extra)
    if level == "model_checking":
        states = acc.states + len(acc.state_keys)
        cov["states"] = states
        cov["transitions"] = acc.transitions
        cov["traces_validated_against_impl"] = acc.traces if acc.traces else acc.n
        cov["explanation"] = (
            "every explored trace is an execution of the implementation itself (no separate model): "
            "states = distinct canonical states reached, transitions = environment events applied"
        )
    ev = {
        "property_id": ctx.prop,
        "tier": ctx.tier,
        "seed": ctx.seed,
        "level": level,
        "coverage": cov,
        "assumptions": ctx.assumptions,
        "wall_s": round(time.time() - ctx.t0, 3),
        "violations": n_viol,
    }
    os.makedirs(os.path.join(OUT, "evidence"), exist_ok=True)
    path = os.path.join(OUT, "evidence", f"{ctx.prop}.json")
    tmp = path + ".tmp"
    with open(tmp, "w") as f:
        json.dump(ev, f, indent=1, sort_keys=True)
        f.write("\n")
    os.replace(tmp, path)
    return path

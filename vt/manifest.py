"""Regenerate MANIFEST.json from the META of every vt/props/cNN.py module:  /venv/bin/python -m vt.manifest"""
import importlib
import json
import os
import sys

sys.path.insert(0, os.environ.get("VERIF_REPO", "/repo"))
ROOT = os.path.dirname(os.path.dirname(os.path.abspath(__file__)))

NOT_APPLICABLE = {}

# Properties whose check is finished and claimed (a module that merely exists is not claimed).
READY = ["C01", "C02", "C03", "C04", "C05", "C06", "C07", "C08", "C09", "C10", "C11", "C12", "C13", "C14", "C15", "C16", "C17", "C18", "C19", "C20"]

ENGINES = [
    {"name": "E1 virtual-loop explorer", "path": "vt/vloop.py vt/explore.py", "kind_free_text": "stateless exhaustive exploration of environment-event schedules of the real asyncio code on a hand-stepped virtual-time event loop with in-memory transports"},
    {"name": "E2 segmentation state graph", "path": "vt/explore.py", "kind_free_text": "explicit-state BFS over (stream offset, canonical parser state); every segmentation of a stream is a path"},
    {"name": "E3 bounded-exhaustive alphabet enumeration", "path": "vt/props vt/ref", "kind_free_text": "complete cross product of a declared finite alphabet run on the real code and compared with independent reference models"},
    {"name": "E4 crash-point enumerator", "path": "vt/props/c20.py", "kind_free_text": "every prefix of the logged file-operation history of a save materialised as a post-crash directory and re-loaded"},
]


def main():
    checks = []
    na = []
    for n in range(1, 21):
        pid = f"C{n:02d}"
        try:
            if pid not in READY:
                raise ModuleNotFoundError(pid)
            mod = importlib.import_module(f"vt.props.{pid.lower()}")
        except ModuleNotFoundError:
            na.append({"property_id": pid, "reason": NOT_APPLICABLE.get(pid, "check not built yet (planned in DESIGN.md §4); not claimed")})
            continue
        m = mod.META
        checks.append(
            {
                "property_id": pid,
                "quick_cmd": f"./check {pid} quick",
                "thorough_cmd": f"./check {pid} thorough",
                "evidence_file": f"/verif/evidence/{pid}.json",
                "replay_cmd_template": f"./check {pid} --replay {{path}}",
                "engine": m.get("engine", "E3"),
                "level_claimed": {"category": m["level"], "text": m["text"], "design_ref": m.get("design_ref", "DESIGN.md §4")},
                "level_note": m["note"],
                "technique": m["technique"],
            }
        )
    man = {
        "version": 1,
        "setup_cmd": "./check selftest",
        "hooks": {
            "guard": "AIOHOMEKIT_VERIF",
            "enable": "no hooks are compiled in: the harnesses replace module attributes / constructor arguments from outside; ./check exports AIOHOMEKIT_VERIF=1 for uniformity",
            "baseline_off_cmd": "cd /repo && /venv/bin/python -m pytest -ra -q -p no:cacheprovider --timeout=900 --continue-on-collection-errors",
            "source_commits": [],
            "add_only": True,
        },
        "engines": ENGINES,
        "checks": checks,
        "not_applicable": na,
        "notes": "All checks import aiohomekit from /repo's working tree (or $VERIF_REPO). Genuine defects found are repaired by 'fix:' commits in /repo or listed in known_findings.json.",
    }
    with open(os.path.join(ROOT, "MANIFEST.json"), "w") as f:
        json.dump(man, f, indent=1)
        f.write("\n")
    print(f"MANIFEST.json: {len(checks)} checks, {len(na)} not claimed")


if __name__ == "__main__":
    main()

"""Generic canonical form of object graphs: walks __dict__ so that state added by a refactoring is part of the state
(an explicit field list silently merges states that differ in a field the list does not know - unsound for dedup)."""
from __future__ import annotations

import asyncio

SKIP_TYPES = (asyncio.AbstractEventLoop, asyncio.BaseTransport, asyncio.Handle)


def canon(x, depth=4, skip=(), _seen=None):
    if _seen is None:
        _seen = set()
    if x is None or isinstance(x, (bool, int, float, str, bytes)):
        return x
    if isinstance(x, (bytearray, memoryview)):
        return bytes(x)
    if isinstance(x, asyncio.Future):
        if not x.done():
            return ("future", "pending")
        if x.cancelled():
            return ("future", "cancelled")
        return ("future", "exc:" + type(x.exception()).__name__ if x.exception() else "result")
    if isinstance(x, SKIP_TYPES) or callable(x) and not hasattr(x, "__dict__"):
        return "<skipped>"
    if isinstance(x, (list, tuple)):
        return tuple(canon(v, depth, skip, _seen) for v in x)
    if isinstance(x, (set, frozenset)):
        return tuple(sorted((canon(v, depth, skip, _seen) for v in x), key=repr))
    if isinstance(x, dict):
        return tuple(sorted(((repr(k), canon(v, depth, skip, _seen)) for k, v in x.items())))
    if id(x) in _seen or depth <= 0:
        return f"<{type(x).__name__}>"
    d = getattr(x, "__dict__", None)
    if d is None:
        slots = getattr(type(x), "__slots__", None)
        if slots:
            d = {s: getattr(x, s, None) for s in slots}
        else:
            return f"<{type(x).__name__}>"
    _seen = _seen | {id(x)}
    return (type(x).__name__,) + tuple((k, canon(v, depth - 1, skip, _seen)) for k, v in sorted(d.items()) if k not in skip and not k.startswith("_vt_"))


def tasks_sig(loop):
    """Where every task of the loop currently stands: the (function, instruction offset) stack of its coroutine chain.  Part of a canonical
    state whenever background tasks (connectors, debounced resolutions) carry progress that no attribute shows."""
    import asyncio

    out = []
    for t in asyncio.all_tasks(loop):
        if t.done():
            continue
        stack = []
        c = t.get_coro()
        seen = 0
        while c is not None and seen < 12:
            seen += 1
            fr = getattr(c, "cr_frame", None) or getattr(c, "gi_frame", None) or getattr(c, "ag_frame", None)
            if fr is None:
                break
            # (plus the scalar locals of the frame: a retry counter, a back-off interval - progress that no instruction offset shows)
            loc = tuple(sorted((n, v if not isinstance(v, float) else round(v, 6)) for n, v in fr.f_locals.items() if isinstance(v, (int, float, bool, type(None))) or (isinstance(v, str) and len(v) < 40)))
            stack.append((getattr(c, "__qualname__", type(c).__name__), fr.f_lasti, loc))
            c = getattr(c, "cr_await", None) or getattr(c, "gi_yieldfrom", None) or getattr(c, "ag_await", None)
        out.append(tuple(stack))
    return tuple(sorted(out))
